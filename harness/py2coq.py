"""py2coq — a fail-closed translator from a small, typed subset of Python to Gallina.

It regenerates, on every run, the *control flow* of selected pure functions of /repo as
Coq functions (coq/Gen/Tr*.v); a hand-proved tie lemma (<Area>/Tie*.v, restated in
Props/Cxx.v) then shows that the regenerated function equals the hand-written model
function on ALL inputs.  A change of the Python function therefore changes the generated
Coq text and the tie lemma is re-checked against what the code says now.

Subset (anything else raises ExtractError => the tie is reported as broken):

  statements   x = e | x, y = e | x op= e | x = l.pop(0) | l.append(e) | buf.write(e) | yield e
               if/elif/else | while (explicit fuel) | for x in <list expr> [else] (structural)
               for x in <iterator variable> [else] (fuel; the iterator is shared state)
               return e | raise Exc(...) | continue | break | pass | docstrings
  expressions  names, int/str/None/bool constants, + - * // %, comparisons (one operator),
               and/or/not in boolean position, `x is [not] None`, `a in (..)`, `c in "lit"`,
               e1 if c else e2, tuples, list literals, subscripts l[i], len(), ord(),
               [f(x) for x in l], and calls listed in the module spec (other translated
               functions or primitives of a hand-written Coq module, e.g. regex leaves),
               `a or d` in value position (a: optional/plain str or list), `"c" in s` (one-character
               literal), a pure generator expression as the iterable of a comprehension,
               f(a, name=b) for a rendering with named parameters (Call.kw; keywords in parameter
               order), field reads x.f through the spec key "<type>.@f"

Semantics kept: evaluation order, exceptions (`result`), early return, for/else, shared
iterators, truthiness of lists/strings/ints/options, Python negative indexing.
Variables are typed by the spec (Python has no static types); the typing is checked while
translating (a mismatch is an ExtractError), and again by Coq's type checker.

Every `while` (and every loop over a shared iterator) becomes a Fixpoint on explicit fuel
returning `Err OutOfFuel` when exhausted; the tie lemma proves the fuel expression suffices.
A loop inside the body of another loop takes what follows it as a continuation parameter
`kxN_` over its loop state (_nested_exit); loops are numbered in source order, outer first.
A call argument of type ("literal", "<source text>", "<coq term>") must be exactly that source
text (regex flags such as `re.MULTILINE | re.DOTALL`) and is rendered by the Coq term.
Also: `for i, x in enumerate(IT[, start=K])` over a shared iterator variable (_enum_shared); `if x:` / `a if x else b` /
`x and P(x)` on an optional str/list VARIABLE narrow it where the test is true (tr_opt_truthy); a dict with str keys
as an association list — `{}`, `d[k] = v`, methods through the spec (type ("dict", "str", V)); `del x` of a local;
`x = list(recv.m(..))` for a receiver-mutating method rendered as returning a list, with overloads chosen by their
("literal", …) arguments; a generator expression as a direct argument of a spec-rendered call (eager, must be pure);
an exception message that translates as a pure expression.
Method mode, objects that serve attributes themselves: `try: B except (E..): H` (FunTr._try: H runs on the state that
`MErr e st` carries; B binds no locals; kinds by the CATCHES table, undecidable kinds end in OutOfFuel); attributes served
by __getattr__/__setattr__ (Module.attr_hooks: `self.x` / `self.x = e` are the calls they stand for); methods that call
each other in a cycle as one mutual Fixpoint on fuel (Fun.rec_group/rec_fuel); hand-written primitives on the object's
state (Call.stateprim: setattr(self, name, v), super().__setattr__); injections into a sum type of dynamic values
(Module.coercions); `s + t` with an optional str operand (tr_add_opt: TypeError on None); `"lit %s" % s`; `s in <constant
list of str>`; truth value of an optional str/list state attribute (tr_opt_nonempty); with Fun.narrow, `if not m: raise`
on an optional opaque value narrows m.
Opaque objects (("coq", T)) through primitives of the spec: truth value "<T>.__bool__", `o[k]` "<T>.__getitem__", `o[k] = v`
"<T>.__setitem__" (receiver-mutating), `for x in o` "<T>.__iter__" (a list), `{}` where T is expected: consts["{}"];
`t[k]` for a tuple type and a literal k; `"..%s..%s.." % (a, b)` with str arguments; Fun.join_defines (opt-in): a variable first
assigned on every path through an if/else is defined after it; regex_text resolves `re.compile(NAME + "literal")`.
Fun.alias_state (opt-in, method mode): `x = self.attr` as a second name of the list held in a state attribute (_alias_stmt:
x is read as self.attr while the alias cannot come apart); a loop body may change the list being iterated over when it
`break`s at once (_mut_then_break).
Objects with assignable attributes in local variables (an opaque type with setters "<T>.@attr=": obj -> value -> obj):
`obj.attr = e`, by value under an ownership discipline (_owned_object: only obj.attr / obj = <call> / L.append(obj); _consume:
the name — and a list/dict stored into an attribute — is undefined once handed over, until rebound; join points drop such
names); `L[i].m(args)` for a receiver-mutating m on an element of a list (_mut_item_stmt); a loop in a branch of an if with a
join point (continuation parameter, like a nested loop); `k in d` on a dict with str keys; `assert`; `x = y` between lists when
every in-place change precedes it (_alias_after_mutations); self.m(a, name=b) for translated methods (keywords in parameter
order) and @staticmethod helpers reached through self.
A dict with a fixed set of str keys as an opaque record: "<T>.__getitem__"/"<T>.__setitem__" given as a LIST of renderings, one per
asserted ("literal", …) key (_by_literal_key); a dict literal with constant keys: the constructor "<T>.{}" (Call.kw = the keys);
`"..%s..%s.." % t` for t of a tuple type of str; `o == s` / truth value of an Optional[str] expression (tr_opt_str_eqb,
tr_opt_nonempty on a subscript); `map(F, L)` (F a lambda or rendered by the spec) as a comprehension: as the last argument of a
rendering marked Call.exhausts (str.join), or pure where the map object is certainly consumed once (_lazy_map_ok).
A primitive on a HIDDEN state (_hidden_state, e.g. the number of warnings emitted: warnings.warn) may be called inside an expression
(StM prelude entries, rendered by swrap) and inside a comprehension, whose elements are then produced on the threaded state (tr_mapS).
`self.attr[k] = v` on a state attribute holding an opaque object ("<T>.__setitem__"); `a, b = <list>` (ValueError unless the list has
exactly that many elements); a read of a @property of the object's class (Module.properties: the call of the getter); keyword
arguments of a method call on a typed receiver, `recv.m(a, name=b)` (Call.kw, entry 0 = the receiver; parameter order).
`try: x = E  except K: H  [else: L]` in any mode (_try_assign: the body is ONE assignment of an expression to a local; kinds by
CATCHES + Module.catches); `<int> * <str>` (tr_repeat); `k in o` on an opaque object ("<T>.__contains__"); a comprehension over an
opaque object ("<T>.__iter__"); `[]` where an opaque type of dynamic values is expected (Module.coercions ("nil", T, "C"));
Fun.calls: renderings that hold in one function only; Fun.forwards_varargs: `*args, **kwargs` that are only handed on to one callee
rendered as a primitive on the object's state (_forwards_only); in the iterable of a for loop, `X.attr` rendered by Module.consts does
not count as a use of X.
HEAP MODE (Module.heap = Heap(var, ty, {class: HeapClass}), for mutable objects with IDENTITY that are referred to from several
places, e.g. the nodes of a doubly linked list): a value of a declared class has the type ("ref", Cls) — a reference (an id) into a
heap; None is `option` of it.  A function that CHANGES objects lists the heap in its state as ("<heap>", var, ty): it is threaded
like method-mode state and returned on exceptions too; a function that only READS objects takes it as a ghost parameter and returns
`result`.  `x.attr` on a reference-typed expression is `getter heap x : result T`, `x.attr = e` is `setter heap x v : result heap`
(e, then x, then the store; both spec-named primitives defined from the model's own heap functions; on an Optional reference first
tr_unwrap: AttributeError = OtherError); a @property of the class is the call of its translated getter / setter (find_def:
"Cls.name@getter" / "Cls.name@setter"); `Cls(args)` is HeapClass.alloc (the model's fresh allocation) followed by the translated
__init__ (emitted as the definition HeapClass.new; every field must be assigned at top level of __init__); `a is b` / `a is not b`
on references is id equality (eqb / opt_eqb); a reference is truthy (the class may define neither __bool__ nor __len__: checked), and
`if x:` / `while x:` / `x is None` on an Optional reference held in a variable narrow it (_narrow, _while).
Call.substate: a call of a function that runs on PART of the caller's state (the heap alone; the attributes of an object held in an
attribute, e.g. the LinkedList inside an OrderedSet) may stand inside an expression, as a statement, or after `return` (StM prelude
entries in evaluation order; in a function whose heap is state every read of a state attribute is captured at its place in that
order, LetM); ghost parameters of the callee are handed on; Heap.assume: an Optional reference passed where a reference is expected
ends in OutOfFuel on None.  Callable values (type ("fun", args, ret, state)): a bound method / function that the spec renders with
`substate`, or a lambda over single-assignment locals, passed as an argument and called through the parameter (_fun_value).
`yield from X` (X a list-rendered generator or a generator expression); keyword-only parameters with defaults that are declared
locals; `k in X` by the source text "in X" (a translated __contains__); `==` on an opaque type by "<T>.__eq__"; `del self.attr[k]`
("<T>.__delitem__"); in _try: `except Exception` (every kind but OutOfFuel) and a bare `raise` in the handler.
Still rejected in heap mode: `==` / hashing / ordering of objects, attributes that are not declared, inheritance, class attributes,
objects stored where the spec gives no reference type, a generator that changes the heap.
Objects built on such heap objects (the paragraph classes of _deb822_repro/parsing.py over OrderedSet / LinkedList): iteration (for,
comprehension, `yield from`) over an opaque object whose "<T>.__iter__" is MONADIC — it walks a linked structure through the heap
(_iter_monadic: the items taken at once, at this point of the evaluation order); Fun.retype: a name rebound at another type
(`key, _, _ = _unpack_key(key)`, _retyped); a list literal where a type of LIST OBJECTS (references into a store of lists: Python
lists changed in place under several names) is expected: the allocating constructor "<T>.[]" (Call.substate); `k in self.attr`
with the state attribute captured after the left operand (LetM); a field read "<T>.@attr" whose getter is monadic (a @property
that reads through the heap, e.g. LinkedList.tail); `try: return E  except K: H` (desugared to _try_assign with `else: return`).
Containers of mutable values and references to container objects (sets and dicts of lib/debian/debtags.py): `o[k] |= e` /
`o[k].m(a…)` on an opaque container held in a local variable ("<T>.[].__ior__" / "<T>.[].m", _item_op_stmt: the element has no
name of its own); `o[k] = v` where "<T>.__setitem__" is a Call with `substate` (o a reference to a container object in a heap;
parameters in evaluation order: value, container, key); `{}` by a parameterless constructor "<T>.{}" (a constant, or with
`substate` an allocation); `{K: V for x in IT}` / `for a, b in IT` by "<T>.{for}" (_dictcomp); `{E for x in S}` as
set([E for x in S]) through the spec's `set`; `self.a, self.b = e` on state attributes; an attribute setter "<T>.@attr=" with
`substate` (a container built as a value is published into the heap: fails closed if the local name may change it afterwards);
`return obj` of an owned object; Module.ref_types (opaque types that ARE references: storing one shares, _consume); f(*X)
for a rendering marked `star` (_arg); truth value of an Optional str/list returned by a call (tr_opt_nonempty).
`self.attr.f = e` on a state attribute holding an opaque object threaded by value, by the pure setter "<T>.@f=" (obj -> value -> obj):
the state variable is rebound (C11: self._token_list.head_node = …).
"""
import ast
import os
import re

from .extract import ExtractError, coq_string

RESERVED = {"match", "end", "in", "fun", "let", "if", "then", "else", "as", "at", "return", "fix", "with",
            "forall", "exists", "Type", "Prop", "Set", "do", "cofix", "struct", "where", "using", "for"}

ERR = {"ValueError": "ValueError", "KeyError": "KeyError", "TypeError": "TypeError", "IndexError": "IndexError",
       "MachineReadableFormatError": "FormatError", "NotMachineReadableError": "FormatError",
       "AssertionError": "AssertionError", "NotImplementedError": "NotImplementedError",
       "StopIteration": "StopIteration", "ArError": "DebError", "DebError": "DebError", "IOError": "IOError",
       "OSError": "IOError", "ChangelogParseError": "ParseError",
       "ChangelogCreateError": "OtherError",    # Changelog/Model.v: opt_or_err (no kind of its own; err_kind says OtherError too)
       "EOFError": "OtherError",     # no kind of its own in Lib/Base.err: harness.core.err_kind reports it as OtherError too
       "AmbiguousDeb822FieldKeyError": "KeyError",      # _deb822_repro/_util.py: a subclass of KeyError
       "RuntimeError": "OtherError"}     # no kind of its own: harness.core.err_kind reports it as OtherError (Repro/ListView.v: resolve)


def ty_coq(t):
    if isinstance(t, str):
        return {"Z": "Z", "char": "N", "str": "str", "bool": "bool", "unit": "unit", "strbuf": "str"}.get(t) or _bad("type %r" % t)
    k = t[0]
    if k in ("list", "iter"):
        return "(list %s)" % ty_coq(t[1])
    if k == "option":
        return "(option %s)" % ty_coq(t[1])
    if k == "tuple":
        return "(" + " * ".join(ty_coq(x) for x in t[1:]) + ")%type"
    if k == "coq":
        return t[1]
    if k == "dict" and len(t) == 3 and t[1] == "str":
        # a dict with str keys as an association list in insertion order: only `{}`, d[k] = v (tr_dict_set) and
        # the methods the spec renders ("<dict>.get" -> tr_dict_get) are translated; iteration is not
        return "(list (str * %s))" % ty_coq(t[2])
    if k == "fun" and len(t) == 4:
        # ("fun", (argument types…), result type, ((state variable, type)…)): a CALLABLE VALUE (bound method, lambda) that
        # runs on and changes the state of the function it is used in — which must be exactly that state (FunTr._fun_value)
        sts = [ty_coq(x) for _, x in t[3]]
        return "(%s -> mres %s (%s)%%type)" % (" -> ".join(sts + [ty_coq(x) for x in t[1]]), ty_coq(t[2]), " * ".join(sts))
    if k == "ref" and len(t) == 2 and _HEAP is not None and t[1] in _HEAP.classes:
        # HEAP MODE: a value of a declared object class is a reference into the heap (Heap/HeapClass below)
        return _HEAP.classes[t[1]].coq
    _bad("type %r" % (t,))


_HEAP = None        # Module.heap of the module being translated (set by translate_module for its duration)


def _bad(msg, node=None):
    if node is not None and hasattr(node, "lineno"):
        msg = "line %d: %s" % (node.lineno, msg)
    raise ExtractError("py2coq: " + msg)


def same_repr(a, b):
    """Types with the same Coq representation."""
    def norm(t):
        if t == "strbuf":
            return "str"
        if isinstance(t, tuple) and t[0] == "iter":
            return ("list", norm(t[1]))
        if isinstance(t, tuple) and t[0] in ("list", "option"):
            return (t[0], norm(t[1]))
        if isinstance(t, tuple) and t[0] == "tuple":
            return ("tuple",) + tuple(norm(x) for x in t[1:])
        if t == "str":
            return ("list", "char")
        return t
    return norm(a) == norm(b)


def coerce(text, frm, to, node=None):
    if to is None or same_repr(frm, to):
        return text
    if isinstance(to, tuple) and to[0] == "option" and same_repr(frm, to[1]):
        return "(Some %s)" % text
    if frm == "char" and same_repr(to, "str"):
        return "[%s]" % text
    if frm == "none" and isinstance(to, tuple) and to[0] == "option":
        return "None"
    if frm == "nil" and (to in ("str", "strbuf") or (isinstance(to, tuple) and to[0] in ("list", "iter"))):
        return "[]"
    # injections given by the module spec (Module.coercions), e.g. str -> a sum type of dynamic values
    for f_, t_, tmpl in _COERCIONS:
        if same_repr(frm, f_) and same_repr(to, t_):
            return tmpl % text if "%s" in tmpl else tmpl
    if isinstance(to, tuple) and to[0] == "option" and frm not in ("none", "nil"):
        for f_, t_, tmpl in _COERCIONS:
            if same_repr(frm, f_) and same_repr(to[1], t_) and "%s" in tmpl:
                return "(Some %s)" % (tmpl % text)
    _bad("cannot use a value of type %r where %r is expected (%s)" % (frm, to, text[:60]), node)


_COERCIONS = []     # Module.coercions of the module being translated (set by translate_module for its duration)


class Call:
    """How a Python call is rendered: `coq` applied to the translated arguments.
    args: expected types; ret: result type; monadic: returns `result ret` (may raise)."""
    kw = None   # optional parameter names (one per entry of args, None = positional only): enables `f(a, name=b)`
    # selfmethod (set after construction): "Cls.meth", the qual of a Fun OF THE SAME MODULE translated in METHOD MODE
    # with the same ghost parameters and the same state as the caller (coq = its Coq name, args/ret = its parameter
    # types/return type).  `x = self.meth(a..)` / `self.meth(a..)` — statements only — then runs the translated method
    # on the caller's current state: the returned state replaces the caller's state variables, an exception of the
    # callee propagates with the state the callee reached.  Arguments left out take the defaults that the callee's
    # `def` has in the source now (constants only).
    selfmethod = None
    # stateprim (set after construction, METHOD MODE only): a HAND-WRITTEN primitive with the calling convention of a
    # translated method: `coq <ghost…> <state variables…> <args…> : mres ret (state tuple)`.  Statements only
    # (`x = f(a..)` / `f(a..)`), every argument must be given; the returned state replaces the caller's state
    # variables, an exception propagates with the state the primitive returns.  For operations on the object
    # itself that are not methods of the translated class: `setattr(self, name, v)`, `super().__setattr__(..)`.
    stateprim = False
    # exhausts (set after construction): the callee takes EVERY element of an iterable given as its last argument
    # before it does anything else observable (str.join does).  Enables `f(.., map(F, L))` with an F that may raise
    # (FunTr._arg): the lazy map object is then evaluated at once, as a list.
    exhausts = False
    # substate (set after construction, METHOD MODE / HEAP MODE): a list of STATE VARIABLE NAMES of the caller, e.g.
    # ["hp"] or ["hp", "s_head", "s_tail", "s_size"] — the callee (a function translated in the same module in method
    # mode with exactly these state variables, names and types, or a hand-written primitive with that calling convention)
    # runs on and changes THAT PART of the caller's state: `coq <substate variables…> <args…> : mres ret (substate tuple)`;
    # the rest of the caller's state is untouched; an exception propagates with the state reached.  Unlike selfmethod,
    # the call may stand inside an expression (a prelude entry StM, rendered by swrap in evaluation order); every
    # argument must be given positionally.  (FunTr._sub_call)
    substate = None

    def __init__(self, coq, args, ret, monadic=False, mutates=False):
        self.coq, self.args, self.ret, self.monadic = coq, list(args), ret, monadic
        # mutates: a method that changes its receiver (first argument); the Coq function returns
        # (ret * receiver') — or result of that when monadic.  Only usable as `x = recv.m(..)` / `recv.m(..)` statements.
        self.mutates = mutates


class Fun:
    def __init__(self, coq, qual, params, ret, locals=None, fuel=None, skip_first=False, generator=False,
                 state=None, ghost=None):
        self.coq, self.qual, self.params, self.ret = coq, qual, list(params), ret
        # state: [(source text of the attribute, e.g. "self.__cur", variable name, type)] — METHOD MODE: the
        # attributes are threaded as variables and the function returns `mres ret (state tuple)`: the final
        # state is returned on normal return AND on an exception (partial effects are kept, as in Python).
        self.state = list(state or [])
        # ghost: [(name, type)] extra leading Coq parameters that the primitives need (e.g. the file contents)
        self.ghost = list(ghost or [])
        self.locals = dict(locals or {})
        self.fuel = dict(fuel or {})
        self.skip_first = skip_first
        self.generator = generator
        # narrow (opt-in): flow typing of option variables — `x = e` with e : T binds x at type T although x is
        # declared ("option", T); a join point / loop keeps T when every incoming edge has T (loops: when the
        # body does not assign x).  Without it every variable has its declared type after an assignment/join.
        self.narrow = False
        # result_var (opt-in): the function returns None after mutating this PARAMETER in place; the translation
        # returns its final value instead (ret = its type).  The parameter must never be rebound.
        self.result_var = None
        # join_defines (opt-in): a variable that is not defined before an if/else and is assigned on EVERY path that
        # reaches the end of the if/else is defined afterwards (it becomes a parameter of the join point).  Without
        # it such a variable is not visible after the if/else (a later use fails closed).
        self.join_defines = False
        # rec_group / rec_fuel (opt-in, METHOD MODE, no loops): methods that call each other in a cycle
        # (`self.a()` in b, `self.b()` in a) carry the same rec_group name and stand NEXT TO EACH OTHER in Module.funs;
        # they become ONE mutual `Fixpoint … with …` on an explicit leading `fuel : nat` (`OutOfFuel` at 0; a call
        # inside the group passes the decreased fuel).  rec_fuel: the Coq nat expression passed by callers outside
        # the group; the tie lemma proves it suffices.
        self.rec_group = None
        self.rec_fuel = None
        # alias_state (opt-in, METHOD MODE): {"x": "self.attr"} — the statement `x = self.attr` (attr a state
        # attribute holding a list) makes the local name x ANOTHER NAME OF THE SAME LIST OBJECT, which is then changed
        # in place through x.  Rendered by reading x as self.attr in the rest of the block (FunTr._alias_stmt checks
        # that the alias cannot come apart: x is never rebound, self.attr is only re-assigned x itself, no method
        # of the object runs meanwhile, x is not used outside that block).  With the attribute set, any other
        # `y = self.attr` on a list-valued state attribute of which y or the attribute is changed in place fails closed.
        self.alias_state = {}


class Module:
    # attr_hooks: {"self.<name>": (getter source text or None, setter source text or None)} — an attribute that is
    # NOT stored under its own name but served by the class's __getattr__/__setattr__: a read `self.<name>` is
    # translated as the call `<getter>("<name>")`, an assignment `self.<name> = e` as the statement
    # `<setter>("<name>", e)`; both are then rendered through `calls` like any other call.  (That normal lookup of
    # <name> fails, so that Python really calls __getattr__, is the spec author's claim.)
    attr_hooks = {}
    # coercions: [(from type, to type, "Coq template with one %s")] injections applied where a value of the first type
    # is used at the second (dynamic values: str -> a sum type); ("none", T, "C") renders None at T by the constant C
    coercions = ()
    # properties: {"self.<name>": "Cls.<name>"} — an attribute that is a @property of the object's class (the decorator
    # is checked in the source): a read `self.<name>` is the call of the getter, rendered through `calls` under the key
    # "Cls.<name>" (no arguments; typically the translated getter with the object's state passed by name).
    properties = {}
    # heap: a Heap (below) — HEAP MODE: values of the declared classes are references into a heap
    heap = None

    def __init__(self, name, rel, funs, calls=None, imports=(), regexes=(), consts=None):
        self.name, self.rel, self.funs = name, rel, list(funs)
        self.calls = dict(calls or {})
        self.imports = list(imports)
        self.regexes = list(regexes)      # (qualified name, expected pattern text): asserted, fail-closed
        self.consts = dict(consts or {})  # python name (module/class constant) -> (coq text, type)


class HeapClass:
    """HEAP MODE: a class whose instances are mutable objects with IDENTITY, referred to from several places.  A value of
    type ("ref", "<class name>") is a reference (Coq type `coq`, e.g. "id") into the heap; None is `option` of it.
      fields   {attribute: (type, getter, setter)} — the plain attributes (slots).  `x.attr` on a reference is
               `getter <heap> x : result <type>` (a read through a dangling reference is the primitive's error),
               `x.attr = v` is `setter <heap> x v : result <heap type>`; both are hand-written primitives of the spec,
               defined from the model's own heap functions.
      props    {attribute: (getter Call or None, setter Call or None)} — @property attributes: the read `x.attr` is the
               call of the getter with the receiver as its only argument, the assignment `x.attr = v` the call of the
               setter (a Call with `substate`, arguments receiver and value); both are translated functions.
      eqb / opt_eqb   `a is b` on two references / when one side may be None (id equality).
      alloc, init, new   `Cls(args…)`: `alloc <heap> : ref * heap` (the model's fresh allocation), then the translated
               `__init__` (Coq name `init`, state = the heap alone, first parameter the new reference); the translator
               emits this as the definition `new` right after `init` and checks that __init__ assigns every field at top
               level (a slot that was never assigned would raise AttributeError on a read).  `Cls(..)` itself is rendered
               through Module.calls (key "Cls" -> a Call with coq = `new` and substate = [the heap variable]).
    A reference is truthy (the class must define neither __bool__ nor __len__: checked in the source)."""
    def __init__(self, coq, fields, props=None, eqb=None, opt_eqb=None, alloc=None, init=None, new=None):
        self.coq, self.fields, self.props = coq, dict(fields), dict(props or {})
        self.eqb, self.opt_eqb, self.alloc, self.init, self.new = eqb, opt_eqb, alloc, init, new


class Heap:
    """HEAP MODE (Module.heap).  var: the name of the heap variable; a function that CHANGES objects lists it in its
    state as ("<heap>", var, ty) — it is then threaded like method-mode state and returned on exceptions too; a function
    that only READS objects takes it as a ghost parameter (and returns `result`: any write fails closed).  classes:
    {class name: HeapClass}.  Everything else about the declared classes (inheritance, other attributes, __eq__, iteration
    of an object, …) is rejected.
    assume (optional): a primitive `option A -> result A` that is `Ok a` on `Some a` and `Err OutOfFuel` on None.  With it, an
    Optional reference may be passed where a callee (Call.substate) takes a reference — flow typing that the translator
    does not do, e.g. `self.remove_node(self.tail_node)` after `if self.tail_node is None: raise`.  None there is OUTSIDE
    what is rendered faithfully (Python would hand None on): it ends in OutOfFuel, and the tie theorem, which has no such
    case, has to prove that it never happens."""
    def __init__(self, var, ty, classes, assume=None):
        self.var, self.ty, self.classes, self.assume = var, ty, dict(classes), assume


def cname(n):
    return n + "_v" if n in RESERVED or n.startswith("_") else n


def find_def(tree, qual):
    parts = qual.split(".")
    body = tree.body
    node = None
    for p in parts:
        node = None
        if "@" in p:
            # "name@getter" / "name@setter": the def of that name decorated with @property / @name.setter (exactly one)
            nm, kind = p.split("@", 1)
            deco = {"getter": "property", "setter": nm + ".setter"}.get(kind) or _bad("definition %s: @%s" % (qual, kind))
            hits = [n for n in body if isinstance(n, ast.FunctionDef) and n.name == nm
                    and [ast.unparse(d_) for d_ in n.decorator_list] == [deco]]
            if len(hits) != 1:
                _bad("definition %s: expected exactly one def %s decorated with @%s" % (qual, nm, deco))
            node = hits[0]
            body = node.body
            continue
        for n in body:
            if isinstance(n, (ast.FunctionDef, ast.ClassDef)) and n.name == p:
                node = n
        if node is None:
            _bad("definition %s not found" % qual)
        body = node.body
    if not isinstance(node, ast.FunctionDef):
        _bad("%s is not a function" % qual)
    return node


def find_value(tree, qual):
    parts = qual.split(".")
    body = tree.body
    for p in parts[:-1]:
        nxt = [n for n in body if isinstance(n, ast.ClassDef) and n.name == p]
        if not nxt:
            _bad("class %s not found" % p)
        body = nxt[-1].body
    vals = []
    for n in body:
        if isinstance(n, ast.Assign) and any(isinstance(t, ast.Name) and t.id == parts[-1] for t in n.targets):
            vals.append(n.value)
    if len(vals) != 1:
        _bad("expected exactly one assignment to %s, found %d" % (qual, len(vals)))
    return vals[0]


def regex_text(tree, qual):
    """The pattern text of `X = re.compile(<literal>[, flags])`; flags are returned as source text."""
    v = find_value(tree, qual)
    if isinstance(v, ast.Call) and ast.unparse(v.func) == "re.compile" and v.args \
            and not isinstance(v.args[0], ast.Constant):
        # re.compile(NAME) / re.compile(NAME.encode('UTF-8')) where NAME = <string literal> at module level
        a0, enc = v.args[0], False
        if isinstance(a0, ast.Call) and isinstance(a0.func, ast.Attribute) and a0.func.attr == "encode" \
                and not a0.keywords and len(a0.args) == 1 and isinstance(a0.args[0], ast.Constant) \
                and str(a0.args[0].value).lower().replace("-", "") == "utf8":
            a0, enc = a0.func.value, True
        if isinstance(a0, ast.Name):
            lit = find_value(tree, a0.id)
            if isinstance(lit, ast.Constant) and isinstance(lit.value, str):
                val = lit.value.encode("utf-8") if enc else lit.value
                v = ast.copy_location(ast.Call(func=v.func, args=[ast.Constant(value=val)] + v.args[1:],
                                               keywords=v.keywords), v)
        if isinstance(a0, ast.BinOp) and not enc:
            # re.compile(NAME + <literal> …): a concatenation of str literals and of names bound (exactly once) to a
            # str literal in the SAME class / at module level (e.g. Deb822._single = re.compile(_key_part + r"…"))
            def static_str(x):
                if isinstance(x, ast.Constant) and isinstance(x.value, str):
                    return x.value
                if isinstance(x, ast.BinOp) and isinstance(x.op, ast.Add):
                    return static_str(x.left) + static_str(x.right)
                if isinstance(x, ast.Name):
                    scope = qual.rsplit(".", 1)[0] + "." if "." in qual else ""
                    lit = find_value(tree, scope + x.id)
                    if isinstance(lit, ast.Constant) and isinstance(lit.value, str):
                        return lit.value
                _bad("%s: the pattern is not a concatenation of str literals / names of str literals" % qual)
            v = ast.copy_location(ast.Call(func=v.func, args=[ast.Constant(value=static_str(a0))] + v.args[1:],
                                           keywords=v.keywords), v)
    if not (isinstance(v, ast.Call) and ast.unparse(v.func) == "re.compile" and v.args
            and isinstance(v.args[0], ast.Constant) and isinstance(v.args[0].value, (str, bytes))):
        _bad("%s is not re.compile(<literal>)" % qual)
    flags = ", ".join(ast.unparse(a) for a in v.args[1:]) + "".join(
        ", %s=%s" % (k.arg, ast.unparse(k.value)) for k in v.keywords)
    return v.args[0].value, flags


class E:
    """A translated expression: monadic prelude [(var, result-typed text)], pure text, type."""
    def __init__(self, pre, text, ty):
        self.pre, self.text, self.ty = pre, text, ty


class StM(str):
    """The bound term of a prelude entry that is a call RUNNING ON AND CHANGING the object's state (METHOD MODE; text of
    type `mres T <state tuple>`, see FunTr._call / the comprehension with tr_mapS).  Only FunTr.swrap renders it (it
    rebinds the state variables for everything that is evaluated after it); every other consumer of a prelude goes
    through `wrap`, which fails closed on it."""


class LetM(str):
    """The bound term of a prelude entry that is a PURE value captured at this point of the evaluation order (HEAP MODE:
    the value of a state attribute `self.attr`, which a call later in the same expression may change): rendered as a
    `let` by wrap and swrap."""


def wrap(pre, body):
    out = body
    for v, m in reversed(pre):
        if isinstance(m, StM):
            _bad("a call that changes the object's state inside an expression that is evaluated conditionally "
                 "(short-circuit, conditional expression) or outside method mode")
        if isinstance(m, LetM):
            out = "(let %s := %s in %s)" % (v, m, out)
            continue
        out = "(do %s <- %s; %s)" % (v, m, out)
    return out


class FunTr:
    def __init__(self, mod, fun, node):
        if getattr(fun, "calls", None):
            # Fun.calls (opt-in, set after construction): renderings that hold in THIS function only, over the module's
            # (`self.m(..)` / `self.attr` name different methods in different classes of one module)
            import copy
            mod = copy.copy(mod)
            mod.calls = dict(mod.calls, **fun.calls)
        self.mod, self.fun, self.node = mod, fun, node
        self.defs = []
        self.nloop = 0
        self.ntmp = 0
        self.njoin = 0
        self.rty = ("list", fun.ret) if fun.generator else fun.ret
        self.decl = dict(fun.ghost)
        self.decl.update(dict(fun.params))
        self.decl.update(fun.locals)
        self.method = bool(fun.state)
        self.stattr = {a: v for a, v, _ in fun.state}
        for _, v, t in fun.state:
            self.decl[v] = t
        names_ = [g for g, _ in fun.ghost] + [p for p, _ in fun.params] + [v for _, v, _ in fun.state] + list(fun.locals)
        if len(set(names_)) != len(names_):
            _bad("name clash between ghost/params/state/locals of %s: %r" % (fun.qual, names_))
        if self.method and fun.generator:
            _bad("a generator method is not supported: %s" % fun.qual)
        if fun.generator:
            self.decl["out__"] = ("list", fun.ret)
        self.order = [g for g, _ in fun.ghost] + [p for p, _ in fun.params] + [v for _, v, _ in fun.state] + \
                     (["out__"] if fun.generator else []) + [k for k in fun.locals]

    # ------------------------------------------------------------------ helpers
    def st_tuple(self):
        return "(" + ", ".join(cname(v) for _, v, _ in self.fun.state) + ")"

    def st_type(self):
        return "(" + " * ".join(ty_coq(t) for _, _, t in self.fun.state) + ")%type"

    def rtype(self):
        if self.method:
            return "mres %s %s" % (ty_coq(self.rty), self.st_type())
        return "result %s" % ty_coq(self.rty)

    def ok(self, text):
        return "MOk %s %s" % (text, self.st_tuple()) if self.method else "Ok %s" % text

    def err(self, kind):
        return "MErr %s %s" % (kind, self.st_tuple()) if self.method else "Err %s" % kind

    def swrap(self, pre, body):
        """Statement-level monadic prelude: in method mode an exception returns the state reached so far."""
        if not self.method:
            return wrap(pre, body)
        out = body
        for v, m in reversed(pre):
            if isinstance(m, StM):
                # a call on the object's state inside the expression: what is evaluated after it sees the new state
                stv, ev = self.tmp(), self.tmp()
                out = "(match %s with MOk %s %s => let '%s := %s in %s | MErr %s %s => MErr %s %s end)" % (
                    m, v, stv, self.st_tuple(), stv, out, ev, stv, ev, stv)
                continue
            if isinstance(m, LetM):
                out = "(let %s := %s in %s)" % (v, m, out)
                continue
            out = "(match %s with Ok %s => %s | Err e__ => MErr e__ %s end)" % (m, v, out, self.st_tuple())
        return out

    # HEAP MODE ----------------------------------------------------------------------------------------------------
    def _heap(self):
        """Module.heap if this function has the heap variable (as a state variable or as a ghost parameter), else None."""
        hp = getattr(self.mod, "heap", None)
        return hp if hp is not None and hp.var in self.decl else None

    def _heap_rw(self):
        """The heap is part of this function's state (it may change objects)."""
        hp = self._heap()
        return hp is not None and any(v == hp.var for _, v, _ in self.fun.state)

    def _ref_class(self, t):
        """The HeapClass of a reference type ("ref", C) / ("option", ("ref", C)) -> (HeapClass, is optional) or None."""
        hp = self._heap()
        opt = isinstance(t, tuple) and t[0] == "option"
        if opt:
            t = t[1]
        if hp is not None and isinstance(t, tuple) and len(t) == 2 and t[0] == "ref" and t[1] in hp.classes:
            return hp.classes[t[1]], opt
        return None

    def _ref_truthy_ok(self, t, node):
        """An instance of the class is always truthy: the class defines neither __bool__ nor __len__ (and has no base
        class that could), checked in the source now."""
        cls = (t[1] if t[0] == "option" else t)[1] if isinstance(t, tuple) else t
        cdefs = [n for n in self.mod.tree_.body if isinstance(n, ast.ClassDef) and n.name == cls]
        if len(cdefs) != 1:
            _bad("class %s: expected exactly one definition at module level" % cls, node)
        for b in cdefs[0].bases:
            if not (ast.unparse(b) == "object" or ast.unparse(b).startswith("Generic[")):
                if isinstance(b, ast.Name) and b.id != cls and sum(
                        1 for n in self.mod.tree_.body if isinstance(n, ast.ClassDef) and n.name == b.id) == 1:
                    self._ref_truthy_ok(b.id, node)     # a base class defined in the same module: checked as well
                    continue
                _bad("truth value of a %s: base class %s" % (cls, ast.unparse(b)), node)
        for n in cdefs[0].body:
            names = [n.name] if isinstance(n, (ast.FunctionDef, ast.ClassDef)) else \
                [x.id for tg in getattr(n, "targets", []) for x in ast.walk(tg) if isinstance(x, ast.Name)]
            if "__bool__" in names or "__len__" in names:
                _bad("truth value of a %s: the class defines %s" % (cls, names), node)

    def _sub_call(self, cand, texts, node):
        """The prelude term (StM) of a call of a function that runs on PART of the caller's state (Call.substate)."""
        sub = list(cand.substate)
        mine = {v: t for _, v, t in self.fun.state}
        if not self.method or self.fun.generator or any(v not in mine for v in sub):
            _bad("%s runs on the state variables %r: the caller %s does not have them in its state" % (
                cand.coq, sub, self.fun.qual), node)
        fs = [f for f in self.mod.funs if f.coq == cand.coq]
        if len(fs) > 1:
            _bad("%s: several translated functions of that name" % cand.coq, node)
        gh = []
        if fs:
            f = fs[0]
            if [(v, t) for _, v, t in f.state] != [(v, mine[v]) for v in sub] or f.generator \
                    or (f.ghost and f.ghost != self.fun.ghost) \
                    or [t for _, t in f.params] != list(cand.args) or f.ret != cand.ret or f.rec_group:
                _bad("the rendering of %s does not have the state/ghost/parameter/return types of %s" % (cand.coq, f.qual), node)
            gh = [cname(g) for g, _ in f.ghost]       # the callee's ghost parameters are the caller's: handed on
        app = " ".join([cand.coq] + gh + [cname(v) for v in sub] + texts)
        if sub == [v for _, v, _ in self.fun.state]:
            return StM(app)
        r, st, e = self.tmp(), self.tmp(), self.tmp()
        pat = "(" + ", ".join(cname(v) for v in sub) + ")"
        return StM("(match %s with MOk %s %s => let '%s := %s in MOk %s %s | MErr %s %s => let '%s := %s in MErr %s %s end)" % (
            app, r, st, pat, st, r, self.st_tuple(), e, st, pat, st, e, self.st_tuple()))

    def _sub_call_expr(self, cand, arg_nodes, env, node, recv=None):
        """E of a call rendered by a Call with `substate`: arguments left to right (after the receiver), then the call."""
        n_expected = len(cand.args) - (1 if recv is not None else 0)
        if len(arg_nodes) != n_expected or any(isinstance(a, ast.Starred) for a in arg_nodes):
            _bad("%s expects %d positional arguments" % (cand.coq, n_expected), node)
        es = ([recv] if recv is not None else []) + \
            [self.expr(a, env, w) for a, w in zip(arg_nodes, cand.args[1 if recv is not None else 0:])]
        hp = self._heap()
        for i_, (e, w) in enumerate(zip(es, cand.args)):
            rc = self._ref_class(e.ty)
            if rc is not None and rc[1] and self._ref_class(w) is not None and not self._ref_class(w)[1] \
                    and same_repr(e.ty[1], w) and hp.assume and not (recv is not None and i_ == 0):
                # an Optional reference where the callee takes a reference: Heap.assume (None ends in OutOfFuel)
                u = self.tmp()
                es[i_] = E(e.pre + [(u, "%s %s" % (hp.assume, e.text))], u, w)
        texts = [coerce(e.text, e.ty, w, node) for e, w in zip(es, cand.args)]
        t = self.tmp()
        return E(sum((e.pre for e in es), []) + [(t, self._sub_call(cand, texts, node))], t, cand.ret)

    def _no_stm(self, pre, node, what):
        if any(isinstance(m, StM) for _, m in pre):
            _bad("a call that changes the object's state inside %s" % what, node)

    def _fun_state_ok(self, fty, node):
        if not self.method or self.fun.generator or [(v, t) for _, v, t in self.fun.state] != [tuple(x) for x in fty[3]]:
            _bad("a callable value of type %r in %s, whose state is not the one the type names" % (fty, self.fun.qual), node)

    def _fun_value(self, n, env, want):
        """An expression where a CALLABLE VALUE of type ("fun", args, ret, state) is expected:
          * `X.m` / `f` whose SOURCE TEXT is a key of the spec's calls rendered by a Call with `substate` (a bound method of
            an object whose attributes are part of this function's state, a translated function): the function that runs
            it on that part of the state.  (A bound method remembers the OBJECT, not a snapshot of it: the state it runs
            on is the one at the time of the call.  That `X` denotes the same object then is the spec author's claim, made
            by listing X's attributes as state.)
          * `lambda x…: BODY`: BODY translated on the state at the time of the call.  It may read locals of the enclosing
            function; a closure sees a variable, not its value, so each such local must be bound exactly once in the whole
            function (parameters: never rebound) and the function must contain no loop (fail closed otherwise)."""
        self._fun_state_ok(want, n)
        sps = " ".join("(%s : %s)" % (cname(v), ty_coq(t)) for v, t in want[3])
        key = ast.unparse(n)
        c = self.mod.calls.get(key)
        if isinstance(n, (ast.Attribute, ast.Name)) and isinstance(c, Call) and c.substate \
                and list(c.args) == list(want[1]) and c.ret == want[2]:
            ps = ["a%d__" % i for i in range(len(c.args))]
            args = " ".join("(%s : %s)" % (p, ty_coq(t)) for p, t in zip(ps, c.args))
            return E([], "(fun %s %s => %s)" % (sps, args, self._sub_call(c, ps, n)), want)
        if isinstance(n, ast.Lambda):
            la = n.args
            if la.vararg or la.kwarg or la.kwonlyargs or la.posonlyargs or la.defaults or len(la.args) != len(want[1]):
                _bad("lambda: exactly %d plain parameters" % len(want[1]), n)
            if any(isinstance(m, (ast.For, ast.While, ast.ListComp, ast.GeneratorExp, ast.SetComp, ast.DictComp))
                   for m in ast.walk(self.node)):
                _bad("lambda in a function with a loop", n)
            names = [x.arg for x in la.args]
            if len(set(names)) != len(names) or any(x in self.decl for x in names):
                _bad("lambda parameters %r clash with declared names" % names, n)
            free = {m.id for m in ast.walk(n.body) if isinstance(m, ast.Name)} - set(names)
            for x in sorted(free):
                stores = [m for m in ast.walk(self.node) if isinstance(m, ast.Name) and m.id == x and not isinstance(m.ctx, ast.Load)]
                if x in env and (len(stores) > 1 or (stores and x in [p for p, _ in self.fun.params])):
                    _bad("the lambda reads %r, which is bound more than once in %s" % (x, self.fun.qual), n)
            env2 = dict(env)
            for v, t in want[3]:
                env2[v] = t
            for x, t in zip(names, want[1]):
                env2[x] = t
            e = self.expr(n.body, env2, want[2])
            args = " ".join("(%s : %s)" % (cname(x), ty_coq(t)) for x, t in zip(names, want[1]))
            body = self.swrap(e.pre, self.ok(coerce(e.text, e.ty, want[2], n)))
            return E([], "(fun %s %s => %s)" % (sps, args, body), want)
        _bad("a callable value: only a bound method / function that the spec renders with `substate`, or a lambda", n)

    def _heap_attr_read(self, n, recv, env):
        """`x.attr` (Load) on a reference-typed expression: a heap lookup / the call of a @property getter."""
        hc, opt = self._ref_class(recv.ty)
        hp = self._heap()
        pre, rtext = list(recv.pre), recv.text
        if opt:     # attribute access on None: AttributeError (rendered OtherError), before anything else
            u = self.tmp()
            pre.append((u, "tr_unwrap %s" % rtext))
            rtext = u
        if n.attr in hc.fields:
            ty, getter, _ = hc.fields[n.attr]
            t = self.tmp()
            return E(pre + [(t, "%s %s %s" % (getter, cname(hp.var), rtext))], t, ty)
        g = hc.props.get(n.attr, (None, None))[0]
        if isinstance(g, Call) and len(g.args) == 1 and g.monadic and not g.mutates and not g.substate:
            t = self.tmp()
            return E(pre + [(t, "%s %s" % (g.coq, rtext))], t, g.ret)
        _bad("attribute %s of a %r: neither a declared field nor a declared property" % (n.attr, recv.ty), n)

    def _heap_attr_assign(self, s, t, env, nxt):
        """`x.attr = e` on a reference-typed expression x.  Python evaluates e, then x, then stores."""
        hp = self._heap()
        saved = self.ntmp
        try:
            recv0 = self.expr(t.value, env)
        except ExtractError:
            recv0 = None
        self.ntmp = saved
        rc = self._ref_class(recv0.ty) if recv0 is not None else None
        if rc is None:
            return None
        if not self._heap_rw():
            _bad("%s: assignment to an attribute of an object in a function that takes the heap read-only" % ast.unparse(t), s)
        hc, opt = rc
        if t.attr in hc.fields:
            fty, _, setter = hc.fields[t.attr]
            v = self.expr(s.value, env, fty)
            recv = self.expr(t.value, env)
            pre, rtext = v.pre + recv.pre, recv.text
            if opt:
                u = self.tmp()
                pre = pre + [(u, "tr_unwrap %s" % rtext)]
                rtext = u
            h2 = self.tmp()
            pre = pre + [(h2, "%s %s %s %s" % (setter, cname(hp.var), rtext, coerce(v.text, v.ty, fty, s)))]
            return self.swrap(pre, "(let %s := %s in %s)" % (cname(hp.var), h2, nxt(env)))
        g = hc.props.get(t.attr, (None, None))[1]
        if isinstance(g, Call) and g.substate and len(g.args) == 2 and g.ret == "unit":
            v = self.expr(s.value, env, g.args[1])
            recv = self.expr(t.value, env)
            pre, rtext = v.pre + recv.pre, recv.text
            if opt:
                u = self.tmp()
                pre = pre + [(u, "tr_unwrap %s" % rtext)]
                rtext = u
            r = self.tmp()
            pre = pre + [(r, self._sub_call(g, [coerce(rtext, recv.ty[1] if opt else recv.ty, g.args[0], s),
                                                coerce(v.text, v.ty, g.args[1], s)], s))]
            env2 = dict(env)
            for _, sv, st_ in self.fun.state:
                env2[sv] = st_
            return self.swrap(pre, nxt(env2))
        _bad("assignment to attribute %s of a %r: neither a declared field nor a property with a setter" % (t.attr, recv0.ty), s)

    def _hidden_state(self):
        """Every state variable stands for something the translated code cannot name (its "source text" is not a
        Python expression, e.g. "<warnings emitted>"): only primitives on the state read or change it.  Then a call
        on the state may stand INSIDE an expression: no pure part of the expression reads the state, so rebinding
        the state variables at the call cannot reorder a read."""
        for a, _, _ in self.fun.state:
            try:
                ast.parse(a, mode="eval")
                return False
            except SyntaxError:
                pass
        return self.method

    def tmp(self):
        self.ntmp += 1
        return "tmp%d_" % self.ntmp

    def declared(self, name, node=None):
        if name not in self.decl:
            _bad("variable %r has no declared type in the spec of %s" % (name, self.fun.qual), node)
        return self.decl[name]

    def truthy(self, e, node=None):
        t = e.ty
        if t == "bool":
            return e.text
        if t == "Z":
            return "(negb (%s =? 0)%%Z)" % e.text
        if t in ("str", "strbuf") or (isinstance(t, tuple) and t[0] == "list"):
            return "(negb (tr_is_nil %s))" % e.text
        if self._ref_class(t) is not None:
            # HEAP MODE: a reference to an object of a class without __bool__/__len__ is truthy; None is falsy
            self._ref_truthy_ok(t, node)
            return "(tr_is_some %s)" % e.text if t[0] == "option" else "true"
        if isinstance(t, tuple) and t[0] == "option":
            inner = t[1]
            if inner == "bool":
                # Optional[bool]: None and False are falsy, only True is truthy
                return "(tr_opt_true %s)" % e.text
            if inner in ("str", "strbuf", "Z", "bool", "char") or (isinstance(inner, tuple) and inner[0] in ("list", "iter", "option", "dict")):
                # Some "" / Some 0 / Some [] are falsy in Python: `if x:` on such a value is not `x is not None`
                _bad("truth value of an optional %r (None and the empty/zero value are both falsy); test `is None` "
                     "explicitly or narrow first" % (inner,), node)
            return "(tr_is_some %s)" % e.text
        if isinstance(t, tuple) and t[0] == "coq":
            # an opaque value: its truth value is a primitive of the spec, key "<type>.__bool__" (pure, one argument)
            g = self.mod.calls.get("<%s>.__bool__" % t[1])
            if isinstance(g, Call) and len(g.args) == 1 and not g.monadic and not g.mutates and g.ret == "bool":
                return "(%s %s)" % (g.coq, coerce(e.text, t, g.args[0], node))
        _bad("truth value of type %r is not supported" % (t,), node)

    def vars_of(self, env):
        return [v for v in self.order if v in env]

    # ------------------------------------------------------------------ expressions
    def expr(self, n, env, want=None):
        e = self._expr(n, env, want)
        return e

    def pure(self, n, env, want=None):
        e = self.expr(n, env, want)
        if e.pre:
            _bad("expression may raise where only a pure one is supported: %s" % ast.unparse(n), n)
        return e

    def cond(self, n, env):
        """A test in boolean position -> E of type bool (prelude possible)."""
        if isinstance(n, ast.BoolOp):
            saved_tmp = self.ntmp
            # (`x is None or x == s`: the comparison of the Optional variable x with a str is left to the narrowing
            #  below, as it always was — _compare does not render it while x stands here)
            nar0 = self._narrow(n.values[0], env) if len(n.values) >= 2 else None
            saved_noeq = getattr(self, "_no_opt_eq", None)
            self._no_opt_eq = nar0[0] if nar0 and nar0[1] == isinstance(n.op, ast.Or) else saved_noeq
            try:
                parts = [self.cond(v, env) for v in n.values]
            except ExtractError:
                self._no_opt_eq = saved_noeq
                # `x is None or P(x)` / `x is not None and P(x)` on an option-typed variable: P is evaluated only
                # when x is not None, so x has its inner type there.  Tried only when the plain rendering fails.
                nar = self._narrow(n.values[0], env) if len(n.values) >= 2 else None
                if not (nar and nar[1] == isinstance(n.op, ast.Or)):
                    raise
                self.ntmp = saved_tmp
                name = nar[0]
                env_some = dict(env)
                env_some[name] = env[name][1]
                rest = n.values[1] if len(n.values) == 2 else \
                    ast.copy_location(ast.BoolOp(op=n.op, values=n.values[1:]), n)
                r = self.cond(rest, env_some)
                short = "true" if isinstance(n.op, ast.Or) else "false"
                if r.pre:
                    t = self.tmp()
                    return E([(t, "match %s with None => Ok %s | Some %s => %s end" % (
                        self._narrow_scrut(n.values[0], name), short, cname(name), wrap(r.pre, "Ok %s" % r.text)))], t, "bool")
                return E([], "(match %s with None => %s | Some %s => %s end)" % (
                    self._narrow_scrut(n.values[0], name), short, cname(name), r.text), "bool")
            self._no_opt_eq = saved_noeq
            op = "&&" if isinstance(n.op, ast.And) else "||"
            if all(not p.pre for p in parts[1:]):
                return E(parts[0].pre, "(" + (" %s " % op).join(p.text for p in parts) + ")", "bool")
            # short-circuit with effects: evaluate lazily in the monad
            acc = parts[-1]
            acc_m = wrap(acc.pre, "Ok %s" % acc.text)
            for p in reversed(parts[:-1]):
                if isinstance(n.op, ast.And):
                    acc_m = wrap(p.pre, "(if %s then %s else Ok false)" % (p.text, acc_m))
                else:
                    acc_m = wrap(p.pre, "(if %s then Ok true else %s)" % (p.text, acc_m))
            t = self.tmp()
            return E([(t, acc_m)], t, "bool")
        if isinstance(n, ast.UnaryOp) and isinstance(n.op, ast.Not):
            c = self.cond(n.operand, env)
            return E(c.pre, "(negb %s)" % c.text, "bool")
        e = self.expr(n, env)
        if isinstance(n, ast.Attribute) and ast.unparse(n) in self.stattr and isinstance(e.ty, tuple) \
                and e.ty[0] == "option" and (e.ty[1] == "str" or (isinstance(e.ty[1], tuple) and e.ty[1][0] == "list")):
            # truth value of an optional str/list STATE ATTRIBUTE (never narrowed): None and the empty value are falsy
            return E(e.pre, "(tr_opt_nonempty %s)" % e.text, "bool")
        if isinstance(n, ast.Subscript) and isinstance(e.ty, tuple) and e.ty[0] == "option" \
                and (e.ty[1] == "str" or (isinstance(e.ty[1], tuple) and e.ty[1][0] == "list")):
            # truth value of an optional str/list read by a subscript `o[k]` (an expression: nothing to narrow):
            # None and the empty value are falsy
            return E(e.pre, "(tr_opt_nonempty %s)" % e.text, "bool")
        if isinstance(n, ast.Call) and isinstance(e.ty, tuple) and e.ty[0] == "option" \
                and (e.ty[1] == "str" or (isinstance(e.ty[1], tuple) and e.ty[1][0] == "list")):
            # truth value of an optional str/list returned by a call (`if m.group(2):` — an expression: nothing to
            # narrow): None and the empty value are falsy
            return E(e.pre, "(tr_opt_nonempty %s)" % e.text, "bool")
        return E(e.pre, self.truthy(e, n), "bool")

    def _const(self, n, want):
        v = n.value
        if v is None:
            if isinstance(want, tuple) and want[0] == "option":
                return E([], "None", want)
            return E([], "None", "none")
        if isinstance(v, bool):
            return E([], "true" if v else "false", "bool")
        if isinstance(v, int):
            return E([], "(%d)%%Z" % v, "Z")
        if isinstance(v, (str, bytes)):
            cps = list(v) if isinstance(v, bytes) else [ord(c) for c in v]
            if want == "char" and len(cps) == 1:
                return E([], "%d%%N" % cps[0], "char")
            return E([], "[" + "; ".join("%d" % c for c in cps) + "]%N", "str")
        _bad("constant %r" % (v,), n)

    def _expr(self, n, env, want):
        if isinstance(want, tuple) and want[0] == "literal":
            # ("literal", source text, coq term): a call argument that the spec asserts AS SOURCE TEXT (regex flags,
            # …) and renders by a hand-written Coq term; any other text fails closed.  The spec's author vouches
            # that evaluating that text cannot raise and has no effect.
            if ast.unparse(n) != want[1]:
                _bad("argument is `%s`; the spec asserts the literal source text `%s`" % (ast.unparse(n), want[1]), n)
            return E([], want[2], want)
        if isinstance(want, tuple) and want[0] == "fun" and not (isinstance(n, ast.Name) and n.id in env):
            return self._fun_value(n, env, want)
        if isinstance(n, ast.Constant):
            return self._const(n, want)
        if isinstance(n, ast.Name):
            if n.id in env:
                return E([], cname(n.id), env[n.id])
            if n.id in self.mod.consts:
                t, ty = self.mod.consts[n.id]
                return E([], t, ty)
            _bad("name %r is not defined here" % n.id, n)
        if isinstance(n, ast.Attribute):
            key = ast.unparse(n)
            if key in self.stattr:
                v = self.stattr[key]
                if self._heap_rw():
                    # HEAP MODE: calls that change the state may stand later in the same expression (Call.substate): the
                    # value the attribute has NOW is captured (LetM), so that textual order = evaluation order
                    t = self.tmp()
                    return E([(t, LetM(cname(v)))], t, env[v])
                return E([], cname(v), env[v])
            if key in self.mod.consts:
                t, ty = self.mod.consts[key]
                return E([], t, ty)
            if self._heap() is not None and isinstance(n.ctx, ast.Load):
                # HEAP MODE: x.attr on a reference-typed expression
                saved_tmp = self.ntmp
                try:
                    recv = self.expr(n.value, env)
                except ExtractError:
                    recv = None
                    self.ntmp = saved_tmp
                if recv is not None and self._ref_class(recv.ty) is not None:
                    return self._heap_attr_read(n, recv, env)
                self.ntmp = saved_tmp
            if self.mod.attr_hooks.get(key, (None, None))[0] and isinstance(n.ctx, ast.Load):
                # an attribute served by __getattr__ (Module.attr_hooks): the read IS the call <getter>("<name>")
                return self._call(self._hook_call(self.mod.attr_hooks[key][0], n, []), env, want)
            if key in getattr(self.mod, "properties", {}) and isinstance(n.ctx, ast.Load):
                # a @property of the object's class (Module.properties): the read IS the call of the getter, no arguments
                qual = self.mod.properties[key]
                if not any(isinstance(d_, ast.Name) and d_.id == "property" for d_ in find_def(self.mod.tree_, qual).decorator_list):
                    _bad("%s is not decorated with @property in the source" % qual, n)
                getter = ast.Call(func=ast.parse(qual, mode="eval").body, args=[], keywords=[])
                for m_ in ast.walk(getter):
                    ast.copy_location(m_, n)
                return self._call(getter, env, want)
            # field read on a typed receiver: spec key "<type>.@field" -> a one-argument getter
            try:
                recv = self.expr(n.value, env)
            except ExtractError:
                recv = None
            if recv is not None:
                tname = recv.ty if isinstance(recv.ty, str) else (recv.ty[1] if recv.ty[0] == "coq" else recv.ty[0])
                g = self.mod.calls.get("<%s>.@%s" % (tname, n.attr))
                if isinstance(g, Call) and len(g.args) == 1 and not g.monadic:
                    return E(recv.pre, "(%s %s)" % (g.coq, coerce(recv.text, recv.ty, g.args[0], n)), g.ret)
                if isinstance(g, Call) and len(g.args) == 1 and g.monadic and not g.mutates and not g.substate \
                        and isinstance(n.ctx, ast.Load):
                    # … a getter that may fail (a @property of an object whose attributes live in the heap, e.g.
                    # LinkedList.tail reading the tail node): a prelude entry at this point of the evaluation order
                    t = self.tmp()
                    return E(recv.pre + [(t, "%s %s" % (g.coq, coerce(recv.text, recv.ty, g.args[0], n)))], t, g.ret)
            _bad("attribute %s" % key, n)
        if isinstance(n, ast.Tuple):
            wants = list(want[1:]) if isinstance(want, tuple) and want[0] == "tuple" and len(want) - 1 == len(n.elts) \
                else [None] * len(n.elts)
            es = [self.expr(x, env, w) for x, w in zip(n.elts, wants)]
            texts = [coerce(e.text, e.ty, w, x) if w is not None else e.text for e, w, x in zip(es, wants, n.elts)]
            tys = [w if w is not None else e.ty for e, w in zip(es, wants)]
            return E(sum((e.pre for e in es), []), "(" + ", ".join(texts) + ")", ("tuple",) + tuple(tys))
        if isinstance(n, ast.List):
            gl = self.mod.calls.get("<%s>.[]" % want[1]) if isinstance(want, tuple) and want[0] == "coq" else None
            if isinstance(gl, Call) and gl.substate and len(gl.args) == 1 and isinstance(gl.args[0], tuple) \
                    and gl.args[0][0] == "list" and gl.ret == want and not gl.mutates and not gl.monadic \
                    and not any(isinstance(x, ast.Starred) for x in n.elts):
                # a list literal where an opaque type of LIST OBJECTS (references into a store of lists: lists that are
                # changed in place under several names) is expected: the spec's constructor "<type>.[]" (Call.substate:
                # the allocation of a new list object holding the elements, which are evaluated first, left to right)
                es = [self.expr(x, env, gl.args[0][1]) for x in n.elts]
                lit = "[" + "; ".join(coerce(e.text, e.ty, gl.args[0][1], x) for e, x in zip(es, n.elts)) + "]"
                t = self.tmp()
                return E(sum((e.pre for e in es), []) + [(t, self._sub_call(gl, [lit], n))], t, want)
            if not n.elts:
                if isinstance(want, tuple) and want[0] == "coq" \
                        and any(f_ == "nil" and same_repr(want, t_) for f_, t_, _ in _COERCIONS):
                    # the empty list where an opaque type of dynamic values is expected: Module.coercions ("nil", T, "C")
                    return E([], coerce("[]", "nil", want, n), want)
                if want is not None:
                    return E([], "[]", want)
                return E([], "[]", "nil")
            elt = want[1] if isinstance(want, tuple) and want[0] in ("list", "iter") else None
            es = [self.expr(x, env, elt) for x in n.elts]
            ety = elt or es[0].ty
            return E(sum((e.pre for e in es), []),
                     "[" + "; ".join(coerce(e.text, e.ty, ety, x) for e, x in zip(es, n.elts)) + "]", ("list", ety))
        if isinstance(n, ast.Dict):
            if not n.keys and isinstance(want, tuple) and want[0] == "coq" and self.mod.consts.get("{}", (None, None))[1] == want:
                # the empty dict literal where an opaque type is expected: the spec's constant "{}" of that type
                return E([], self.mod.consts["{}"][0], want)
            g = self.mod.calls.get("<%s>.{}" % want[1]) if isinstance(want, tuple) and want[0] == "coq" else None
            if not n.keys and isinstance(g, Call) and not g.args and g.ret == want and not g.mutates and not g.monadic:
                # the empty dict literal where an opaque type is expected and the spec gives a constructor "<type>.{}"
                # WITHOUT parameters: a constant, or — with Call.substate — the allocation of a new dict object on
                # (part of) the state, e.g. a heap of dict objects (a prelude entry, in evaluation order)
                if g.substate:
                    t = self.tmp()
                    return E([(t, self._sub_call(g, [], n))], t, want)
                return E([], g.coq, want)
            if n.keys and isinstance(g, Call) and not g.mutates and g.kw is not None and len(g.kw) == len(g.args) \
                    and g.ret == want:
                # a dict literal with constant str keys where an opaque type is expected: the spec's constructor
                # "<type>.{}", whose parameter names (Call.kw) must be exactly the keys, in the order written; the
                # values are evaluated in that order (the keys are constants)
                keys = [k.value if isinstance(k, ast.Constant) and isinstance(k.value, str) else None for k in n.keys]
                if None in keys or len(set(keys)) != len(keys) or keys != list(g.kw):
                    _bad("dict literal with the keys %r; the constructor \"<%s>.{}\" takes %r" % (keys, want[1], g.kw), n)
                es = [self.expr(v_, env, w) for v_, w in zip(n.values, g.args)]
                app = " ".join([g.coq] + [coerce(e.text, e.ty, w, n) for e, w in zip(es, g.args)])
                pre = sum((e.pre for e in es), [])
                if g.monadic:
                    t = self.tmp()
                    return E(pre + [(t, app)], t, want)
                return E(pre, "(%s)" % app, want)
            if n.keys or not (isinstance(want, tuple) and want[0] == "dict"):
                _bad("only the empty dict literal, for a variable declared (\"dict\", \"str\", V)", n)
            ty_coq(want)
            return E([], "[]", want)
        if isinstance(n, ast.UnaryOp):
            if isinstance(n.op, ast.Not):
                return self.cond(n, env)
            if isinstance(n.op, ast.USub):
                e = self.expr(n.operand, env, "Z")
                if e.ty != "Z":
                    _bad("unary minus on %r" % (e.ty,), n)
                return E(e.pre, "(- %s)%%Z" % e.text, "Z")
            _bad("unary operator", n)
        if isinstance(n, ast.BoolOp):
            v = self._value_or(n, env)
            if v is not None:
                return v
            return self.cond(n, env)
        if isinstance(n, ast.BinOp):
            return self._binop(n, env, want)
        if isinstance(n, ast.Compare):
            return self._compare(n, env)
        if isinstance(n, ast.IfExp):
            return self._ifexp(n, env, want)
        if isinstance(n, ast.Subscript):
            base = self.expr(n.value, env)
            if isinstance(n.slice, ast.Slice):
                if n.slice.step is not None:
                    _bad("slice step", n)
                lo = self.expr(n.slice.lower, env, "Z") if n.slice.lower is not None else None
                hi = self.expr(n.slice.upper, env, "Z") if n.slice.upper is not None else None
                for b in (lo, hi):
                    if b is not None and b.ty != "Z":
                        _bad("slice bound of type %r" % (b.ty,), n)
                self._elem_ty(base.ty, n)
                return E(base.pre + (lo.pre if lo else []) + (hi.pre if hi else []),
                         "(tr_slice %s %s %s)" % (base.text, "(Some %s)" % lo.text if lo else "None",
                                                  "(Some %s)" % hi.text if hi else "None"),
                         "str" if base.ty == "strbuf" else base.ty)
            if isinstance(base.ty, tuple) and base.ty[0] == "tuple" and isinstance(n.slice, ast.Constant) \
                    and type(n.slice.value) is int and -(len(base.ty) - 1) <= n.slice.value < len(base.ty) - 1:
                # t[k] for a tuple of statically known arity and a literal index in range: a projection (cannot raise)
                ar = len(base.ty) - 1
                kk = n.slice.value % ar
                ps = ["pj%d_" % j for j in range(ar)]
                return E(base.pre, "(let '(%s) := %s in %s)" % (", ".join(ps), base.text, ps[kk]), base.ty[1 + kk])
            if isinstance(base.ty, tuple) and base.ty[0] == "coq":
                # obj[k] on an opaque object: the spec's primitive "<type>.__getitem__" (two arguments, not mutating)
                g = self._by_literal_key(self.mod.calls.get("<%s>.__getitem__" % base.ty[1]), n.slice)
                if not (isinstance(g, Call) and len(g.args) == 2 and not g.mutates):
                    _bad("subscript of %r needs \"<%s>.__getitem__\" of two arguments" % (base.ty, base.ty[1]), n)
                kx = self.expr(n.slice, env, g.args[1])
                app = "%s %s %s" % (g.coq, coerce(base.text, base.ty, g.args[0], n), coerce(kx.text, kx.ty, g.args[1], n))
                if g.monadic:
                    t = self.tmp()
                    return E(base.pre + kx.pre + [(t, app)], t, g.ret)
                return E(base.pre + kx.pre, "(%s)" % app, g.ret)
            idx = self.expr(n.slice, env, "Z")
            if idx.ty != "Z":
                _bad("index of type %r" % (idx.ty,), n)
            if base.ty in ("str", "strbuf"):
                ety = "char"
            elif isinstance(base.ty, tuple) and base.ty[0] == "list":
                ety = base.ty[1]
            else:
                _bad("subscript of %r" % (base.ty,), n)
            t = self.tmp()
            return E(base.pre + idx.pre + [(t, "tr_index %s %s" % (base.text, idx.text))], t, ety)
        if isinstance(n, ast.ListComp):
            if len(n.generators) != 1 or n.generators[0].is_async \
                    or not isinstance(n.generators[0].target, ast.Name):
                _bad("only [f(x) for x in l if p(x)] comprehensions", n)
            g = n.generators[0]
            if isinstance(g.iter, ast.GeneratorExp):
                # a generator expression consumed exactly once, here: evaluated eagerly, which is the same
                # only if producing its elements cannot raise (otherwise the interleaving would matter)
                it = self.pure(ast.copy_location(ast.ListComp(elt=g.iter.elt, generators=g.iter.generators), g.iter), env)
            else:
                it = self.expr(g.iter, env)
            it = self._iter_monadic(it, n)
            if isinstance(it.ty, tuple) and it.ty[0] == "coq":
                # a comprehension over an opaque object: the spec's "<type>.__iter__" (pure, a list), as in a for statement
                gi = self.mod.calls.get("<%s>.__iter__" % it.ty[1])
                if isinstance(gi, Call) and len(gi.args) == 1 and not gi.monadic and not gi.mutates \
                        and isinstance(gi.ret, tuple) and gi.ret[0] == "list":
                    it = E(it.pre, "(%s %s)" % (gi.coq, coerce(it.text, it.ty, gi.args[0], n)), gi.ret)
            ety = self._elem_ty(it.ty, g.iter)
            env2 = dict(env)
            env2[g.target.id] = ety
            filter_raises = False
            if g.ifs:
                conds = [self.cond(c, env2) for c in g.ifs]
                if any(c.pre for c in conds):
                    # a filter that may raise (a read through the heap, …) but does not touch the state: the elements are
                    # tested in order (tr_filterM; several `if`s left to right, short-circuit); faithful only with an element
                    # expression that cannot raise (otherwise its exceptions would interleave with the filter's): checked below
                    if any(isinstance(m_, (StM, LetM)) for c in conds for _, m_ in c.pre):
                        _bad("comprehension filter that may raise", n)
                    ftxt = "Ok true"
                    for c in reversed(conds):
                        ftxt = wrap(c.pre, "(if %s then %s else Ok false)" % (c.text, ftxt))
                    tf = self.tmp()
                    it = E(it.pre + [(tf, "tr_filterM (fun %s => %s) %s" % (cname(g.target.id), ftxt, it.text))], tf, ("list", ety))
                    filter_raises = True
                else:
                    it = E(it.pre, "(tr_filter (fun %s => %s) %s)" % (
                        cname(g.target.id), " && ".join(c.text for c in conds), it.text), ("list", ety))
            body = self.expr(n.elt, env2)
            if filter_raises and body.pre:
                _bad("comprehension whose filter and element expression may both raise", n)
            x = cname(g.target.id)
            if any(isinstance(m_, StM) for _, m_ in body.pre) and self._hidden_state():
                # the element expression calls a primitive on the (hidden) state: the elements are produced in order,
                # each on the state its predecessor left (tr_mapS); an exception ends it with the state reached
                t = self.tmp()
                fn = "(fun '%s %s => %s)" % (self.st_tuple(), x, self.swrap(body.pre, self.ok(body.text)))
                return E(it.pre + [(t, StM("tr_mapS %s %s %s" % (fn, it.text, self.st_tuple())))], t, ("list", body.ty))
            if body.pre:
                t = self.tmp()
                return E(it.pre + [(t, "tr_mapM (fun %s => %s) %s" % (x, wrap(body.pre, "Ok %s" % body.text), it.text))],
                         t, ("list", body.ty))
            return E(it.pre, "(map (fun %s => %s) %s)" % (x, body.text, it.text), ("list", body.ty))
        if isinstance(n, ast.Call):
            return self._call(n, env, want)
        if isinstance(n, ast.SetComp) and "set" in self.mod.calls and "set" not in env:
            # {E for x in S} is set([E for x in S]): the elements are produced in the same order, with the same
            # exceptions, and put into a new set — rendered through the spec's rendering of `set`
            des = ast.Call(func=ast.Name(id="set", ctx=ast.Load()),
                           args=[ast.ListComp(elt=n.elt, generators=n.generators)], keywords=[])
            for m_ in ast.walk(des):
                if not hasattr(m_, "lineno"):
                    ast.copy_location(m_, n)
            return self._call(ast.fix_missing_locations(ast.copy_location(des, n)), env, want)
        if isinstance(n, ast.DictComp):
            return self._dictcomp(n, env, want)
        _bad("expression %s" % type(n).__name__, n)

    def _dictcomp(self, n, env, want):
        """{K: V for x in IT} / {K: V for a, b in IT} where an opaque dict type T is expected: the spec's constructor
        "<T>.{for}" : list (key * value) -> T applied to the pairs in the order in which they are produced (a later pair
        with an equal key replaces the value and keeps the place: the constructor's business).  For each element Python
        evaluates K, then V; the first exception ends the comprehension."""
        g = self.mod.calls.get("<%s>.{for}" % want[1]) if isinstance(want, tuple) and want[0] == "coq" else None
        if not (isinstance(g, Call) and len(g.args) == 1 and not g.monadic and not g.mutates and not g.substate
                and g.ret == want and isinstance(g.args[0], tuple) and g.args[0][0] == "list"
                and isinstance(g.args[0][1], tuple) and g.args[0][1][0] == "tuple" and len(g.args[0][1]) == 3):
            _bad("dict comprehension: needs the constructor \"<T>.{for}\" (a list of (key, value) pairs -> T) for the "
                 "opaque type expected here (%r)" % (want,), n)
        kty, vty = g.args[0][1][1], g.args[0][1][2]
        if len(n.generators) != 1 or n.generators[0].is_async or n.generators[0].ifs:
            _bad("only {K: V for x in IT} dict comprehensions", n)
        gen = n.generators[0]
        it = self.expr(gen.iter, env)
        if isinstance(it.ty, tuple) and it.ty[0] == "coq":
            gi = self.mod.calls.get("<%s>.__iter__" % it.ty[1])
            if isinstance(gi, Call) and len(gi.args) == 1 and not gi.monadic and not gi.mutates \
                    and isinstance(gi.ret, tuple) and gi.ret[0] == "list":
                it = E(it.pre, "(%s %s)" % (gi.coq, coerce(it.text, it.ty, gi.args[0], n)), gi.ret)
        ety = self._elem_ty(it.ty, gen.iter)
        env2 = dict(env)
        if isinstance(gen.target, ast.Name):
            env2[gen.target.id] = ety
            pat = cname(gen.target.id)
        elif isinstance(gen.target, ast.Tuple) and all(isinstance(x, ast.Name) for x in gen.target.elts) \
                and isinstance(ety, tuple) and ety[0] == "tuple" and len(ety) - 1 == len(gen.target.elts) \
                and len({x.id for x in gen.target.elts}) == len(gen.target.elts):
            for x, ty in zip(gen.target.elts, ety[1:]):
                env2[x.id] = ty
            pat = "'(" + ", ".join(cname(x.id) for x in gen.target.elts) + ")"
        else:
            _bad("dict comprehension target", n)
        k = self.expr(n.key, env2, kty)
        v = self.expr(n.value, env2, vty)
        pair = "(%s, %s)" % (coerce(k.text, k.ty, kty, n), coerce(v.text, v.ty, vty, n))
        if k.pre or v.pre:
            t = self.tmp()
            return E(it.pre + [(t, "tr_mapM (fun %s => %s) %s" % (pat, wrap(k.pre + v.pre, "Ok %s" % pair), it.text))],
                     "(%s %s)" % (g.coq, t), want)
        return E(it.pre, "(%s (map (fun %s => %s) %s))" % (g.coq, pat, pair, it.text), want)

    def _value_or(self, n, env):
        """`a or d` in VALUE position with `a` an optional / plain str or list and `d` a pure str or list:
        Python yields `a` when it is truthy, else `d`.  None when the expression is not of that shape."""
        if not (isinstance(n.op, ast.Or) and len(n.values) == 2):
            return None
        saved = self.ntmp
        try:
            a = self.expr(n.values[0], env)
        except ExtractError:
            self.ntmp = saved
            return None
        opt = isinstance(a.ty, tuple) and a.ty[0] == "option"
        inner = a.ty[1] if opt else a.ty
        if not (inner == "str" or (isinstance(inner, tuple) and inner[0] == "list")):
            self.ntmp = saved
            return None
        d = self.pure(n.values[1], env, inner)
        return E(a.pre, "(%s %s %s)" % ("tr_opt_or" if opt else "tr_or", a.text, coerce(d.text, d.ty, inner, n)), inner)

    def _elem_ty(self, t, node):
        if t in ("str", "strbuf"):
            return "char"
        if isinstance(t, tuple) and t[0] in ("list", "iter"):
            return t[1]
        _bad("cannot iterate over %r" % (t,), node)

    def _iter_monadic(self, it, node):
        """Iteration (for statement, comprehension, `yield from`) over an opaque object whose spec entry "<type>.__iter__"
        is MONADIC (one argument, returns `result (list T)`; it may name the heap / state variables of the function it is
        used in): the items as a list, taken once, at this point of the evaluation order (a prelude entry).  Python would
        produce the items one by one; taking them at once is the same when producing them has no effect and cannot
        raise a Python exception — the spec author's claim about the primitive, whose only errors must be the model's
        non-Python ones (a dangling reference, fuel: a linked structure walked through the heap).  Anything else about
        `it` is returned unchanged."""
        if isinstance(it.ty, tuple) and it.ty[0] == "coq":
            g = self.mod.calls.get("<%s>.__iter__" % it.ty[1])
            if isinstance(g, Call) and len(g.args) == 1 and g.monadic and not g.mutates and not g.substate \
                    and isinstance(g.ret, tuple) and g.ret[0] == "list":
                t = self.tmp()
                return E(it.pre + [(t, "%s %s" % (g.coq, coerce(it.text, it.ty, g.args[0], node)))], t, g.ret)
        return it

    @staticmethod
    def _pure_contains(g):
        return len(g.args) == 2 and not g.monadic and not g.mutates and g.ret == "bool"

    @staticmethod
    def _by_literal_key(g, key_node):
        """`o[k]` / `o[k] = v` on an opaque object whose spec entry is a LIST of renderings, one per asserted key
        (second parameter of type ("literal", <source text of the key>, …), e.g. a dict with a fixed set of str keys
        whose values have different types): the rendering whose literal is the source text of `k`; None if there is
        none (the caller fails closed).  A single rendering is returned as it is."""
        if not isinstance(g, (list, tuple)):
            return g
        src = ast.unparse(key_node)
        for cand in g:
            if isinstance(cand, Call) and len(cand.args) >= 2 and isinstance(cand.args[1], tuple) \
                    and cand.args[1][0] == "literal" and cand.args[1][1] == src:
                return cand
        return None

    def _binop(self, n, env, want):
        if isinstance(n.op, ast.Mod) and isinstance(n.left, ast.Constant) and isinstance(n.left.value, str) \
                and isinstance(n.right, ast.Tuple) and n.right.elts:
            # "<literal whose only directives are %s>" % (<str>, <str>, …), as many as directives: each %s of a str
            # is the str itself; the arguments are evaluated left to right; the formatting cannot raise
            parts = n.left.value.split("%s")
            if any("%" in p for p in parts) or len(parts) - 1 != len(n.right.elts):
                _bad("%-format: only the directive %s, one per element of the tuple", n)
            es = [self.expr(x, env, "str") for x in n.right.elts]
            if any(e.ty != "str" for e in es):
                _bad("%%s of %r (only str arguments)" % ([e.ty for e in es],), n)
            cps = lambda s: "[" + "; ".join("%d" % ord(c) for c in s) + "]%N"   # noqa: E731
            pieces = [cps(parts[0])]
            for e, p in zip(es, parts[1:]):
                pieces += [e.text, cps(p)]
            return E(sum((e.pre for e in es), []), "(" + " ++ ".join(pieces) + ")", "str")
        a = self.expr(n.left, env)
        b = self.expr(n.right, env, a.ty if a.ty in ("Z",) else None)
        pre = a.pre + b.pre
        if a.ty == "Z" and b.ty == "Z":
            if isinstance(n.op, ast.Add):
                return E(pre, "(%s + %s)%%Z" % (a.text, b.text), "Z")
            if isinstance(n.op, ast.Sub):
                return E(pre, "(%s - %s)%%Z" % (a.text, b.text), "Z")
            if isinstance(n.op, ast.Mult):
                return E(pre, "(%s * %s)%%Z" % (a.text, b.text), "Z")
            if isinstance(n.op, (ast.FloorDiv, ast.Mod)):
                t = self.tmp()
                f = "tr_floordiv" if isinstance(n.op, ast.FloorDiv) else "tr_mod"
                return E(pre + [(t, "%s %s %s" % (f, a.text, b.text))], t, "Z")
        if isinstance(n.op, ast.Mult) and sorted([str(a.ty), str(b.ty)]) == ["Z", "str"]:
            # <int> * <str> / <str> * <int>: repetition; a count <= 0 gives '' (tr_repeat)
            s_, k_ = (a, b) if a.ty == "str" else (b, a)
            return E(pre, "(tr_repeat %s %s)" % (s_.text, k_.text), "str")
        if isinstance(n.op, ast.Add) and a.ty != "Z":
            if same_repr(a.ty, b.ty) and (a.ty in ("str", "strbuf") or a.ty[0] == "list"):
                return E(pre, "(%s ++ %s)" % (a.text, b.text), a.ty)
            if a.ty in ("str", "char") and b.ty in ("str", "char"):
                return E(pre, "(%s ++ %s)" % (coerce(a.text, a.ty, "str"), coerce(b.text, b.ty, "str")), "str")
            ostr = ("option", "str")
            if ostr in (a.ty, b.ty) and all(t in (ostr, "str") for t in (a.ty, b.ty)):
                # str + None / None + str: TypeError, after both operands have been evaluated
                t = self.tmp()
                return E(pre + [(t, "tr_add_opt %s %s" % (coerce(a.text, a.ty, ostr, n), coerce(b.text, b.ty, ostr, n)))],
                         t, "str")
        if isinstance(n.op, ast.Mod) and isinstance(n.left, ast.Constant) and isinstance(n.left.value, str) \
                and b.ty == "str" and n.left.value.count("%") == 1 and n.left.value.count("%s") == 1:
            # "<literal with exactly one %s and no other %>" % <a str>: substitution (cannot raise)
            lit = n.left.value
            cps = lambda s: "[" + "; ".join("%d" % ord(c) for c in s) + "]%N"   # noqa: E731
            return E(pre, "(%s ++ %s ++ %s)" % (cps(lit[:lit.index("%s")]), b.text, cps(lit[lit.index("%s") + 2:])), "str")
        if isinstance(n.op, ast.Mod) and isinstance(n.left, ast.Constant) and isinstance(n.left.value, str) \
                and isinstance(b.ty, tuple) and b.ty[0] == "tuple" and all(t == "str" for t in b.ty[1:]) \
                and n.left.value.count("%") == len(b.ty) - 1 and n.left.value.count("%s") == len(b.ty) - 1:
            # "<literal whose only directives are %s>" % <a value of a tuple type of str…>, as many as directives: the
            # tuple's elements are the arguments (a tuple on the right of % is never ONE argument); cannot raise
            parts = n.left.value.split("%s")
            cps = lambda s: "[" + "; ".join("%d" % ord(c) for c in s) + "]%N"   # noqa: E731
            ps = ["pj%d_" % j for j in range(len(b.ty) - 1)]
            pieces = [cps(parts[0])]
            for p_, q_ in zip(ps, parts[1:]):
                pieces += [p_, cps(q_)]
            return E(pre, "(let '(%s) := %s in %s)" % (", ".join(ps), b.text, " ++ ".join(pieces)), "str")
        _bad("operator %s on %r and %r" % (type(n.op).__name__, a.ty, b.ty), n)

    def _compare(self, n, env):
        if len(n.ops) != 1:
            # a < b <= c : each operand evaluated once, left to right; c only if a < b holds.  Rendered as a
            # conjunction when every operand is pure (then evaluating c eagerly is unobservable).
            operands = [n.left] + list(n.comparators)
            parts = []
            for i, op_ in enumerate(n.ops):
                sub = ast.copy_location(ast.Compare(left=operands[i], ops=[op_], comparators=[operands[i + 1]]), n)
                e = self._compare(sub, env)
                if e.pre:
                    _bad("chained comparison with an operand that may raise", n)
                parts.append(e.text)
            return E([], "(" + " && ".join(parts) + ")", "bool")
        op, rn = n.ops[0], n.comparators[0]
        if isinstance(op, (ast.Is, ast.IsNot)):
            if not (isinstance(rn, ast.Constant) and rn.value is None) and self._heap() is not None:
                # HEAP MODE: `a is b` on two references (either may be None) is identity of the objects: id equality
                a = self.expr(n.left, env)
                b = self.expr(rn, env)
                ra, rb = self._ref_class(a.ty), self._ref_class(b.ty)
                if ra is None or rb is None or ra[0] is not rb[0]:
                    # identity between values of two other types, as the spec renders it: key "is" (pure, two arguments)
                    for g in [c_ for c_ in (lambda x_: x_ if isinstance(x_, list) else [x_])(self.mod.calls.get("is") or [])
                              if isinstance(c_, Call) and len(c_.args) == 2 and not c_.monadic and not c_.mutates
                              and not c_.substate and c_.ret == "bool" and c_.args[0] == a.ty and c_.args[1] == b.ty]:
                        txt = "(%s %s %s)" % (g.coq, a.text, b.text)
                        return E(a.pre + b.pre, "(negb %s)" % txt if isinstance(op, ast.IsNot) else txt, "bool")
                    _bad("`is` on %r and %r: only between references to objects of one declared class" % (a.ty, b.ty), n)
                hc = ra[0]
                if ra[1] or rb[1]:
                    oty = a.ty if ra[1] else b.ty
                    txt = "(%s %s %s)" % (hc.opt_eqb or _bad("no opt_eqb for the class", n),
                                          coerce(a.text, a.ty, oty, n), coerce(b.text, b.ty, oty, n))
                else:
                    txt = "(%s %s %s)" % (hc.eqb or _bad("no eqb for the class", n), a.text, b.text)
                return E(a.pre + b.pre, "(negb %s)" % txt if isinstance(op, ast.IsNot) else txt, "bool")
            if not (isinstance(rn, ast.Constant) and rn.value is None):
                _bad("`is` only against None", n)
            a = self.expr(n.left, env)
            if not (isinstance(a.ty, tuple) and a.ty[0] == "option"):
                if a.ty == "none":
                    return E(a.pre, "true" if isinstance(op, ast.Is) else "false", "bool")
                # a narrowed or never-None value
                return E(a.pre, "false" if isinstance(op, ast.Is) else "true", "bool")
            return E(a.pre, "(%s %s)" % ("tr_is_none" if isinstance(op, ast.Is) else "tr_is_some", a.text), "bool")
        a = self.expr(n.left, env)
        if isinstance(op, (ast.In, ast.NotIn)):
            neg = isinstance(op, ast.NotIn)
            cap = []        # (HEAP MODE) the container is a state attribute: its value captured here (LetM), after the left operand
            if isinstance(rn, ast.Tuple):
                items = [self.pure(x, env, a.ty) for x in rn.elts]
                if a.ty in ("str", "char"):
                    lst = "[" + "; ".join(coerce(i.text, i.ty, "str", rn) for i in items) + "]"
                    txt = "(tr_str_in %s %s)" % (coerce(a.text, a.ty, "str"), lst)
                else:
                    _bad("membership of %r in a tuple" % (a.ty,), n)
            else:
                g_in = self.mod.calls.get("in " + ast.unparse(rn))
                if isinstance(g_in, Call) and len(g_in.args) == 1 and g_in.monadic and not g_in.mutates \
                        and not g_in.substate and g_in.ret == "bool":
                    # `k in X` where the spec renders the SOURCE TEXT "in X" (e.g. "in self"): the call
                    # type(X).__contains__(X, k) of a translated read-only method / a primitive that may raise
                    t = self.tmp()
                    return E(a.pre + [(t, "%s %s" % (g_in.coq, coerce(a.text, a.ty, g_in.args[0], n)))],
                             "(negb %s)" % t if neg else t, "bool")
                b = self.expr(rn, env)
                if any(not isinstance(m_, LetM) for _, m_ in b.pre):
                    _bad("expression may raise where only a pure one is supported: %s" % ast.unparse(rn), rn)
                cap = b.pre
                if a.ty == "char" and b.ty in ("str", "strbuf"):
                    txt = "(tr_char_in %s %s)" % (a.text, b.text)
                elif a.ty == "str" and b.ty in ("str", "strbuf") and isinstance(n.left, ast.Constant) \
                        and isinstance(n.left.value, str) and len(n.left.value) == 1:
                    # a one-character literal: substring membership is character membership
                    txt = "(tr_char_in %d%%N %s)" % (ord(n.left.value), b.text)
                elif a.ty == "str" and b.ty == ("list", "str"):
                    # a str in a list/tuple of str held in a constant of the spec (e.g. a class-level tuple)
                    txt = "(tr_str_in %s %s)" % (a.text, b.text)
                elif a.ty == "str" and isinstance(b.ty, tuple) and b.ty[0] == "dict" and len(b.ty) == 3 and b.ty[1] == "str":
                    # k in d for a dict with str keys (association list): is there an entry under k
                    txt = "(tr_is_some (tr_dict_get %s %s))" % (b.text, a.text)
                elif isinstance(b.ty, tuple) and b.ty[0] == "coq" \
                        and isinstance(self.mod.calls.get("<%s>.__contains__" % b.ty[1]), Call) \
                        and self._pure_contains(self.mod.calls["<%s>.__contains__" % b.ty[1]]):
                    # k in o on an opaque object: the spec's primitive "<type>.__contains__" (object, key: pure, a bool)
                    g = self.mod.calls["<%s>.__contains__" % b.ty[1]]
                    txt = "(%s %s %s)" % (g.coq, coerce(b.text, b.ty, g.args[0], n), coerce(a.text, a.ty, g.args[1], n))
                else:
                    _bad("membership of %r in %r" % (a.ty, b.ty), n)
            return E(a.pre + cap, "(negb %s)" % txt if neg else txt, "bool")
        b = self.expr(rn, env, a.ty)
        pre = a.pre + b.pre
        ta, tb = a.ty, b.ty
        if ta == "Z" and tb == "Z":
            sym = {ast.Eq: "=?", ast.NotEq: None, ast.Lt: "<?", ast.LtE: "<=?", ast.Gt: ">?", ast.GtE: ">=?"}[type(op)]
            if sym is None:
                return E(pre, "(negb (%s =? %s)%%Z)" % (a.text, b.text), "bool")
            return E(pre, "(%s %s %s)%%Z" % (a.text, sym, b.text), "bool")
        if isinstance(op, (ast.Eq, ast.NotEq)):
            if ta == "char" and tb == "char":
                txt = "(%s =? %s)%%N" % (a.text, b.text)
            elif ta in ("str", "strbuf", "char") and tb in ("str", "strbuf", "char"):
                txt = "(str_eqb %s %s)" % (coerce(a.text, ta, "str"), coerce(b.text, tb, "str"))
            elif ta == "bool" and tb == "bool":
                txt = "(Bool.eqb %s %s)" % (a.text, b.text)
            elif ta == ("option", "str") and tb == "str" \
                    and not (isinstance(n.left, ast.Name) and n.left.id == getattr(self, "_no_opt_eq", None)):
                # an Optional[str] against a str: None is equal to no str.  (Not for the variable x of an enclosing
                # `x is None or …` / `x is not None and …`: there x is narrowed, see cond.)
                txt = "(tr_opt_str_eqb %s %s)" % (a.text, b.text)
            elif isinstance(ta, tuple) and ta[0] == "coq" and ta == tb \
                    and isinstance(self.mod.calls.get("<%s>.__eq__" % ta[1]), Call) \
                    and self._pure_contains(self.mod.calls["<%s>.__eq__" % ta[1]]):
                # a == b on two values of one opaque type whose class defines __eq__ (and, consistently, __ne__): the spec's
                # primitive "<type>.__eq__" (pure, two arguments, a bool)
                txt = "(%s %s %s)" % (self.mod.calls["<%s>.__eq__" % ta[1]].coq, a.text, b.text)
            else:
                _bad("== on %r and %r" % (ta, tb), n)
            return E(pre, "(negb %s)" % txt if isinstance(op, ast.NotEq) else txt, "bool")
        _bad("comparison %s on %r and %r" % (type(op).__name__, ta, tb), n)

    def _narrow(self, test, env):
        """`X is None` / `X is not None` on an option-typed variable -> (name, none_first) else None."""
        if isinstance(test, ast.Compare) and len(test.ops) == 1 and isinstance(test.ops[0], (ast.Is, ast.IsNot)) \
                and isinstance(test.comparators[0], ast.Constant) and test.comparators[0].value is None:
            nm = None
            if isinstance(test.left, ast.Name):
                nm = test.left.id
            # (state attributes of a method are never narrowed: the state tuple returned on every exit
            #  refers to them by name with their declared types; `x is None` on them is a plain test and a
            #  method call on a possibly-None one goes through tr_unwrap)
            if nm is not None and nm in env and isinstance(env[nm], tuple) and env[nm][0] == "option":
                return nm, isinstance(test.ops[0], ast.Is)
        # truth value of an optional str / list VARIABLE: `x` / `not x`.  None and the empty value are both falsy;
        # where the test is true x is not None (and not empty): it has its inner type there (_narrow_scrut)
        neg = isinstance(test, ast.UnaryOp) and isinstance(test.op, ast.Not)
        v = test.operand if neg else test
        if isinstance(v, ast.Name) and v.id in env and isinstance(env[v.id], tuple) and env[v.id][0] == "option" \
                and (env[v.id][1] == "str" or (isinstance(env[v.id][1], tuple) and env[v.id][1][0] == "list")):
            return v.id, neg
        # (opt-in, Fun.narrow) truth value of an optional OPAQUE value (a match object, …) held in a variable:
        # `m` / `not m` is exactly `m is not None` / `m is None` (truthy: tr_is_some); m has its inner type where true
        if self.fun.narrow and isinstance(v, ast.Name) and v.id in env and self._opaque_opt(env[v.id]):
            return v.id, neg
        # HEAP MODE: truth value of an optional REFERENCE held in a variable (the class has no __bool__/__len__: an object
        # is truthy): exactly `x is not None` / `x is None`; x is a reference where the test is true
        if isinstance(v, ast.Name) and v.id in env and (self._ref_class(env[v.id]) or (None, False))[1]:
            self._ref_truthy_ok(env[v.id], test)
            return v.id, neg
        return None

    @staticmethod
    def _opaque_opt(t):
        return isinstance(t, tuple) and t[0] == "option" and isinstance(t[1], tuple) and t[1][0] in ("coq", "tuple")

    def _narrow_scrut(self, test, name):
        """The scrutinee of the None/Some match that renders a narrowing test (_narrow): the variable itself for
        `x is [not] None`; for the truth value of an optional str/list, tr_opt_truthy x (None for None AND for the
        empty value, as in Python)."""
        if isinstance(test, ast.Compare) or (self.fun.narrow and self._opaque_opt(self.decl.get(name))) \
                or self._ref_class(self.decl.get(name)) is not None:
            return cname(name)
        return "(tr_opt_truthy %s)" % cname(name)

    def _ifexp(self, n, env, want):
        nar = self._narrow(n.test, env)
        if nar:
            name, none_first = nar
            env_some = dict(env)
            env_some[name] = env[name][1]
            n_none, n_some = (n.body, n.orelse) if none_first else (n.orelse, n.body)
            e_none = self.expr(n_none, env, want)
            e_some = self.expr(n_some, env_some, want)
            ty = want or (e_some.ty if e_none.ty in ("none", "nil") else e_none.ty)
            if e_none.ty == "none" and want is None:
                ty = ("option", e_some.ty)
            t_none = coerce(e_none.text, e_none.ty, ty, n)
            t_some = coerce(e_some.text, e_some.ty, ty, n)
            if e_none.pre or e_some.pre:
                t = self.tmp()
                m = "match %s with None => %s | Some %s => %s end" % (
                    self._narrow_scrut(n.test, name), wrap(e_none.pre, "Ok %s" % t_none), cname(name), wrap(e_some.pre, "Ok %s" % t_some))
                return E([(t, m)], t, ty)
            return E([], "(match %s with None => %s | Some %s => %s end)" % (
                self._narrow_scrut(n.test, name), t_none, cname(name), t_some), ty)
        c = self.cond(n.test, env)
        a = self.expr(n.body, env, want)
        b = self.expr(n.orelse, env, want)
        ty = want or (b.ty if a.ty in ("none", "nil") else a.ty)
        ta, tb = coerce(a.text, a.ty, ty, n), coerce(b.text, b.ty, ty, n)
        if a.pre or b.pre:
            t = self.tmp()
            return E(c.pre + [(t, "(if %s then %s else %s)" % (c.text, wrap(a.pre, "Ok %s" % ta), wrap(b.pre, "Ok %s" % tb)))], t, ty)
        return E(c.pre, "(if %s then %s else %s)" % (c.text, ta, tb), ty)

    def _kw_slots(self, n, cand):
        """Argument nodes of the call in parameter order.  Keyword arguments are accepted only for a rendering
        that names its parameters (`Call.kw`), must all be given, and must come in parameter order — then the
        textual order is Python's evaluation order (positional, then keywords as written)."""
        if not n.keywords:
            return list(n.args)
        names = cand.kw
        if names is None or len(names) != len(cand.args):
            _bad("keyword arguments for a rendering without parameter names", n)
        slots = list(n.args)
        for k in n.keywords:
            if k.arg is None or len(slots) >= len(names) or names[len(slots)] != k.arg:
                _bad("keyword argument %r out of parameter order / unknown / parameter left out" % k.arg, n)
            slots.append(k.value)
        return slots

    def _arg(self, a, env, w, cand=None, last=False):
        """An argument of a call rendered through the spec.  A generator expression written directly as the argument
        is consumed by the callee alone: it is evaluated eagerly, as a list — unobservable only if producing its
        elements is pure (no exception, no effect), which is required.
        `map(F, L)` written directly as the argument (_map_as_comp) likewise; its elements MAY raise when it is the
        LAST argument of a rendering marked `exhausts` (the spec vouches that the callee takes every element before it
        does anything else observable, e.g. str.join): then the first exception comes out of the call either way."""
        if isinstance(a, ast.Starred) and cand is not None and getattr(cand, "star", False) and last and len(cand.args) == 1:
            # f(*X) for a rendering marked `star` (set after construction; ONE parameter: the list of all positional
            # arguments): star-unpacking takes every element of X — a list, or a generator expression, which may raise —
            # to build the argument tuple BEFORE f is called, so X is evaluated here, as a list
            x = a.value
            if isinstance(x, ast.GeneratorExp):
                x = ast.copy_location(ast.ListComp(elt=x.elt, generators=x.generators), x)
            return self.expr(x, env, w)
        if isinstance(a, ast.GeneratorExp):
            return self.pure(ast.copy_location(ast.ListComp(elt=a.elt, generators=a.generators), a), env, w)
        if self._is_map(a):
            comp = self._map_as_comp(a)
            if last and cand is not None and getattr(cand, "exhausts", False):
                return self.expr(comp, env, w)
            return self.pure(comp, env, w)
        return self.expr(a, env, w)

    def _is_map(self, a):
        return isinstance(a, ast.Call) and isinstance(a.func, ast.Name) and a.func.id == "map" \
            and "map" not in self.mod.calls and "map" not in self.decl

    def _map_as_comp(self, a):
        """`map(F, L)` as the comprehension [F(x) for x in L] (x fresh) / [BODY for x in L] for F = `lambda x: BODY`.
        F must be a lambda of one plain parameter or an expression whose source text is a key of the spec's calls
        (a function that the spec renders).  The map object is lazy; where this is used the caller has made sure
        that evaluating it at once is unobservable."""
        if len(a.args) != 2 or a.keywords or any(isinstance(x, ast.Starred) for x in a.args):
            _bad("only map(<function>, <one iterable>)", a)
        f, it = a.args
        if isinstance(f, ast.Lambda):
            la = f.args
            if len(la.args) != 1 or la.vararg or la.kwarg or la.kwonlyargs or la.posonlyargs or la.defaults:
                _bad("map with a lambda that does not take exactly one plain parameter", a)
            var, elt = la.args[0].arg, f.body
        elif ast.unparse(f) in self.mod.calls:
            var = self.tmp()
            elt = ast.Call(func=f, args=[ast.Name(id=var, ctx=ast.Load())], keywords=[])
        else:
            _bad("map of %s: not a lambda and not a function that the spec renders" % ast.unparse(f), a)
        comp = ast.ListComp(elt=elt, generators=[ast.comprehension(
            target=ast.Name(id=var, ctx=ast.Store()), iter=it, ifs=[], is_async=0)])
        for m in ast.walk(comp):
            if not hasattr(m, "lineno"):
                ast.copy_location(m, a)
        return ast.fix_missing_locations(ast.copy_location(comp, a))

    def _lazy_map_ok(self, n):
        """Is evaluating `map(F, L)` (node n, in value position) at once, as a list, unobservable?  Yes when F is a
        function the spec renders (no lambda: nothing it closes over can change), no name in L is mutated in place
        anywhere in the function, and the map object is consumed exactly once: it is the iterable of a for statement /
        of the first generator of a comprehension, or it is bound by `x = map(F, L)` to a name that is assigned once
        and read once, as such an iterable, outside every loop, comprehension, lambda and nested function.  (The caller
        requires the elements to be pure, so interleaving with the consumer's body does not matter.)"""
        if len(n.args) != 2 or isinstance(n.args[0], ast.Lambda):
            return False
        parents = {}
        for p in ast.walk(self.node):
            for c in ast.iter_child_nodes(p):
                parents[id(c)] = p
        mutated = set()
        for m in ast.walk(self.node):
            if isinstance(m, ast.Call) and isinstance(m.func, ast.Attribute) and isinstance(m.func.value, ast.Name) \
                    and m.func.attr in ("append", "pop", "extend", "insert", "sort", "reverse", "remove", "clear"):
                mutated.add(m.func.value.id)
            if isinstance(m, (ast.Assign, ast.AugAssign, ast.Delete)):
                for t in (m.targets if not isinstance(m, ast.AugAssign) else [m.target]):
                    if isinstance(t, ast.Subscript) and isinstance(t.value, ast.Name):
                        mutated.add(t.value.id)
        if any(isinstance(m, ast.Name) and m.id in mutated for m in ast.walk(n.args[1])):
            return False

        def consumer(u):
            """the for statement / comprehension that iterates over node u, if u stands in that position"""
            pu = parents.get(id(u))
            if isinstance(pu, ast.For) and pu.iter is u:
                return pu
            if isinstance(pu, ast.comprehension) and pu.iter is u:
                comp = parents.get(id(pu))
                if isinstance(comp, (ast.ListComp, ast.GeneratorExp)) and comp.generators[0] is pu:
                    return comp
            return None
        if consumer(n) is not None:
            return True
        par = parents.get(id(n))
        if not (isinstance(par, ast.Assign) and par.value is n and len(par.targets) == 1
                and isinstance(par.targets[0], ast.Name)):
            return False
        x = par.targets[0].id
        occ = [m for m in ast.walk(self.node) if isinstance(m, ast.Name) and m.id == x]
        loads = [m for m in occ if isinstance(m.ctx, ast.Load)]
        if len(occ) != 2 or len(loads) != 1 or x in [a_.arg for a_ in self.node.args.args]:
            return False
        anchor = consumer(loads[0])
        if anchor is None:
            return False
        for q in (par, anchor):
            q = parents.get(id(q))
            while q is not None and q is not self.node:
                if isinstance(q, (ast.For, ast.While, ast.ListComp, ast.GeneratorExp, ast.SetComp, ast.DictComp,
                                  ast.Lambda, ast.FunctionDef, ast.comprehension, ast.Try)):
                    return False
                q = parents.get(id(q))
        return True

    def _call(self, n, env, want):
        key = ast.unparse(n.func)
        if isinstance(n.func, ast.Name) and n.func.id in env and isinstance(env[n.func.id], tuple) and env[n.func.id][0] == "fun":
            # a call of a CALLABLE VALUE held in a variable (type ("fun", …)): it runs on the whole state of this function
            fty = env[n.func.id]
            self._fun_state_ok(fty, n)
            if n.keywords:
                _bad("keyword arguments of a callable value", n)
            c = Call(cname(n.func.id), list(fty[1]), fty[2])
            c.substate = [v for v, _ in fty[3]]
            return self._sub_call_expr(c, list(n.args), env, n)
        if n.keywords and key not in self.mod.calls and not isinstance(n.func, ast.Attribute):
            _bad("keyword arguments", n)     # (a method call on a typed receiver: see _kw_slots_method below)
        if key in self.mod.calls:
            alts = self.mod.calls[key]
            alts = alts if isinstance(alts, (list, tuple)) else [alts]
            if len(alts) == 1 and alts[0].stateprim and not alts[0].selfmethod and self._hidden_state() \
                    and not n.keywords and len(n.args) == len(alts[0].args) \
                    and not any(isinstance(a_, ast.Starred) for a_ in n.args):
                # a primitive on a HIDDEN state (_hidden_state) called inside an expression: a prelude entry that
                # swrap renders by threading the state (StM); arguments are evaluated first, left to right
                c = alts[0]
                es = [self.expr(a_, env, w) for a_, w in zip(n.args, c.args)]
                texts = [coerce(e.text, e.ty, w, n) for e, w in zip(es, c.args)]
                app = " ".join([c.coq] + [cname(g_) for g_, _ in self.fun.ghost]
                               + [cname(v_) for _, v_, _ in self.fun.state] + texts)
                t = self.tmp()
                return E(sum((e.pre for e in es), []) + [(t, StM(app))], t, c.ret)
            if len(alts) == 1 and alts[0].substate:
                # a function that runs on part of the caller's state (Call.substate), e.g. the heap: HEAP MODE
                if n.keywords and alts[0].kw:
                    # f(a, name=b) with Call.kw (keywords in parameter order, checked by _kw_slots): positional from here on
                    return self._sub_call_expr(alts[0], list(self._kw_slots(n, alts[0])), env, n)
                if n.keywords:
                    _bad("keyword arguments of %s" % key, n)
                return self._sub_call_expr(alts[0], list(n.args), env, n)
            if any(getattr(a_, "selfmethod", None) or getattr(a_, "stateprim", False) for a_ in alts):
                _bad("a call of a method of the same object (%s) is only supported as a statement "
                     "`x = self.m(..)` / `self.m(..)`" % key, n)
            c = es = texts = None
            errs = []
            for cand in alts:          # overloads: the first whose parameter types fit
                try:
                    n_args = self._kw_slots(n, cand)
                except ExtractError as ex:
                    errs.append(str(ex))
                    continue
                if len(cand.args) != len(n_args):
                    errs.append("%s expects %d arguments" % (key, len(cand.args)))
                    continue
                try:
                    es = [self._arg(a, env, w, cand, i_ == len(n_args) - 1)
                          for i_, (a, w) in enumerate(zip(n_args, cand.args))]
                    texts = [coerce(e.text, e.ty, w, n) for e, w in zip(es, cand.args)]
                    c = cand
                    break
                except ExtractError as ex:
                    errs.append(str(ex))
            if c is None:
                _bad("no rendering of %s fits: %s" % (key, "; ".join(errs)), n)
            pre = sum((e.pre for e in es), [])
            app = "%s %s" % (c.coq, " ".join(texts)) if texts else c.coq
            if c.monadic:
                t = self.tmp()
                return E(pre + [(t, app)], t, c.ret)
            return E(pre, "(%s)" % app, c.ret)
        if isinstance(n.func, ast.Attribute):
            # method call on a typed receiver: spec key "<type>.method", the receiver is the first argument
            try:
                recv = self.expr(n.func.value, env)
            except ExtractError:
                recv = None
            if recv is not None and isinstance(recv.ty, tuple) and recv.ty[0] == "option" \
                    and ("<option>.%s" % n.func.attr) not in self.mod.calls:
                # a method call on a possibly-None value: None raises AttributeError (rendered OtherError)
                t = self.tmp()
                recv = E(recv.pre + [(t, "tr_unwrap %s" % recv.text)], t, recv.ty[1])
            if recv is not None:
                tname = recv.ty if isinstance(recv.ty, str) else (recv.ty[1] if recv.ty[0] == "coq" else recv.ty[0])
                if self._ref_class(recv.ty) is not None:
                    tname = recv.ty[1]      # HEAP MODE: a method of a declared object class, key "<Class>.method"
                mkey = "<%s>.%s" % (tname, n.func.attr)
                if mkey in self.mod.calls:
                    alts = self.mod.calls[mkey]
                    alts = alts if isinstance(alts, (list, tuple)) else [alts]
                    if len(alts) == 1 and alts[0].substate:
                        # a translated method that runs on part of the caller's state (Call.substate), e.g. the heap
                        if n.keywords:
                            _bad("keyword arguments of %s" % mkey, n)
                        return self._sub_call_expr(alts[0], list(n.args), env, n, recv=recv)
                    errs = []
                    for cand in alts:
                        m_args = list(n.args)
                        if n.keywords:
                            # recv.m(a, name=b): keyword arguments only for a rendering that names its parameters
                            # (Call.kw, one per entry of args, entry 0 = the receiver); all given, after the positional
                            # ones and in parameter order — then the textual order is Python's evaluation order
                            names = cand.kw
                            if names is None or len(names) != len(cand.args):
                                errs.append("keyword arguments for a rendering without parameter names")
                                continue
                            for k_ in n.keywords:
                                if k_.arg is None or len(m_args) + 1 >= len(names) or names[len(m_args) + 1] != k_.arg:
                                    m_args = None
                                    break
                                m_args.append(k_.value)
                            if m_args is None:
                                errs.append("keyword argument out of parameter order / unknown / parameter left out")
                                continue
                        if len(cand.args) != len(m_args) + 1:
                            errs.append("arity")
                            continue
                        try:
                            es = [recv] + [self._arg(a, env, w, cand, i_ == len(m_args) - 1)
                                           for i_, (a, w) in enumerate(zip(m_args, cand.args[1:]))]
                            texts = [coerce(e.text, e.ty, w, n) for e, w in zip(es, cand.args)]
                        except ExtractError as ex:
                            errs.append(str(ex))
                            continue
                        pre = sum((e.pre for e in es), [])
                        app = "%s %s" % (cand.coq, " ".join(texts))
                        if cand.monadic:
                            t = self.tmp()
                            return E(pre + [(t, app)], t, cand.ret)
                        return E(pre, "(%s)" % app, cand.ret)
                    _bad("no rendering of %s fits: %s" % (mkey, "; ".join(errs)), n)
        if n.keywords:
            _bad("keyword arguments", n)
        if self._is_map(n):
            # map(F, L) in value position: the lazy map object as the list of its elements — only for a pure F that
            # the spec renders, and only where the object is certainly consumed exactly once (_lazy_map_ok)
            if not self._lazy_map_ok(n):
                _bad("map(..) here: only `for`/comprehension over it, or `x = map(F, L)` with x used once, as the "
                     "iterable of a for/comprehension outside any loop; F rendered by the spec; L not mutated in place", n)
            e = self.pure(self._map_as_comp(n), env, want)
            return E([], e.text, e.ty)
        if key == "enumerate" and len(n.args) == 1:
            e = self.expr(n.args[0], env)
            return E(e.pre, "(tr_enumerate %s)" % e.text, ("list", ("tuple", "Z", self._elem_ty(e.ty, n))))
        if key in ("list", "tuple") and len(n.args) == 1:
            a0 = n.args[0]
            if isinstance(a0, ast.GeneratorExp):
                a0 = ast.copy_location(ast.ListComp(elt=a0.elt, generators=a0.generators), a0)
            e = self.expr(a0, env, want)
            return E(e.pre, e.text, ("list", self._elem_ty(e.ty, n)))
        if key == "len" and len(n.args) == 1:
            e = self.expr(n.args[0], env)
            self._elem_ty(e.ty, n)
            return E(e.pre, "(tr_len %s)" % e.text, "Z")
        if key == "ord" and len(n.args) == 1:
            e = self.expr(n.args[0], env)
            if e.ty == "char":
                return E(e.pre, "(Z.of_N %s)" % e.text, "Z")
            if e.ty == "str":
                t = self.tmp()
                return E(e.pre + [(t, "tr_ord %s" % e.text)], t, "Z")
            _bad("ord of %r" % (e.ty,), n)
        if key in ("min", "max") and len(n.args) == 2:
            a, b = self.expr(n.args[0], env, "Z"), self.expr(n.args[1], env, "Z")
            if a.ty == "Z" and b.ty == "Z":
                return E(a.pre + b.pre, "(tr_%s %s %s)" % (key, a.text, b.text), "Z")
        if key == "iter" and len(n.args) == 1:
            e = self.expr(n.args[0], env)
            return E(e.pre, e.text, ("iter", self._elem_ty(e.ty, n)))
        if key == "io.StringIO" and not n.args:
            return E([], "[]", "strbuf")
        if isinstance(n.func, ast.Attribute) and n.func.attr == "getvalue" and not n.args:
            e = self.expr(n.func.value, env)
            if e.ty == "strbuf":
                return E(e.pre, e.text, "str")
        _bad("call of %s is not in the spec" % key, n)

    # ------------------------------------------------------------------ statements
    def assigned(self, stmts):
        """Python names that a block may (re)bind or mutate, syntactically."""
        out = []

        def add(x):
            if x not in out:
                out.append(x)
        for s in stmts:
            for n in ast.walk(s):
                if self._heap_rw():
                    # HEAP MODE (conservative): any call may run on the state (Call.substate), any store to an attribute
                    # that is not a state attribute changes the heap
                    if isinstance(n, ast.Call):
                        for _, v_, _ in self.fun.state:
                            add(v_)
                    if isinstance(n, ast.Attribute) and not isinstance(n.ctx, ast.Load) and ast.unparse(n) not in self.stattr:
                        add(self._heap().var)
                if isinstance(n, ast.Delete):
                    for t in n.targets:     # del self.attr[k] on a state attribute (an opaque object) changes it
                        if isinstance(t, ast.Subscript) and isinstance(t.value, ast.Attribute) and ast.unparse(t.value) in self.stattr:
                            add(self.stattr[ast.unparse(t.value)])
                if isinstance(n, (ast.Assign, ast.AugAssign, ast.For)):
                    tgts = n.targets if isinstance(n, ast.Assign) else [n.target]
                    for t in tgts:
                        for m in ast.walk(t):
                            if isinstance(m, ast.Name):
                                add(m.id)
                            if isinstance(m, ast.Attribute) and ast.unparse(m) in self.stattr:
                                add(self.stattr[ast.unparse(m)])
                            if isinstance(m, ast.Attribute) and self.mod.attr_hooks.get(ast.unparse(m), (None, None))[1]:
                                for _, v_, _ in self.fun.state:      # served by __setattr__: may change every attribute
                                    add(v_)
                    if isinstance(n, ast.For) and isinstance(n.iter, ast.Name):
                        add(n.iter.id)          # a shared iterator is advanced
                    if isinstance(n, ast.For) and isinstance(n.iter, ast.Call) and ast.unparse(n.iter.func) == "enumerate" \
                            and len(n.iter.args) == 1 and isinstance(n.iter.args[0], ast.Name) \
                            and isinstance(self.decl.get(n.iter.args[0].id), tuple) and self.decl[n.iter.args[0].id][0] == "iter":
                        add(n.iter.args[0].id)  # … also through enumerate (_enum_shared)
                if isinstance(n, ast.Call) and isinstance(n.func, ast.Attribute) and isinstance(n.func.value, ast.Name) \
                        and n.func.attr in ("append", "pop", "write", "extend", "insert"):
                    add(n.func.value.id)
                if isinstance(n, ast.Call) and isinstance(n.func, ast.Attribute):
                    rv = n.func.value
                    if isinstance(rv, ast.Attribute) and ast.unparse(rv) in self.stattr:
                        add(self.stattr[ast.unparse(rv)])     # a method call on a state attribute may change it
                    elif isinstance(rv, ast.Name) and any(
                            k.endswith("." + n.func.attr) and any(c.mutates for c in (v if isinstance(v, (list, tuple)) else [v]))
                            for k, v in self.mod.calls.items() if k.startswith("<")):
                        add(rv.id)
                    elif isinstance(rv, ast.Subscript) and any(
                            k.endswith("." + n.func.attr) and any(c.mutates for c in (v if isinstance(v, (list, tuple)) else [v]))
                            for k, v in self.mod.calls.items() if k.startswith("<")):
                        # L[i].m(..) with a receiver-mutating m: the element is changed in place, i.e. L is (_mut_item_stmt)
                        if isinstance(rv.value, ast.Attribute) and ast.unparse(rv.value) in self.stattr:
                            add(self.stattr[ast.unparse(rv.value)])
                        elif isinstance(rv.value, ast.Name):
                            add(rv.value.id)
                    for a_ in n.args:       # an owned object handed over to a container: the name is gone (_consume)
                        if isinstance(a_, ast.Name) and self._owned_type(self.decl.get(a_.id)):
                            add(a_.id)
                if isinstance(n, ast.Assign) and len(n.targets) == 1 and isinstance(n.targets[0], ast.Attribute) \
                        and isinstance(n.targets[0].value, ast.Name) and self._owned_type(self.decl.get(n.targets[0].value.id)) \
                        and isinstance(n.value, ast.Name):
                    add(n.value.id)         # obj.attr = y: a mutable y is handed over to the object (_consume)
                if isinstance(n, ast.Call) and self._selfcall(n) is not None:
                    for _, v_, _ in self.fun.state:          # a method of the same object may change every attribute
                        add(v_)
                if isinstance(n, (ast.Yield, ast.YieldFrom)):
                    add("out__")
        return out

    # objects with assignable attributes held in local variables ------------------------------------------------------
    def _owned_type(self, t):
        """An opaque type ("coq", T) for which the spec gives attribute setters ("<T>.@name=": obj -> value -> obj): a
        mutable object.  A local variable of such a type is rendered by VALUE, which is faithful only while the object
        has one name: _owned_object checks the uses syntactically, _consume takes the name away when the object is
        put into a container."""
        return isinstance(t, tuple) and t[0] == "coq" and any(
            k.startswith("<%s>.@" % t[1]) and k.endswith("=") for k in self.mod.calls)

    def _mutated_set(self):
        """Names of lists/dicts/buffers that the function changes in place somewhere (as in translate())."""
        if "_mutated" not in self.__dict__:
            mutated = set()
            for m in ast.walk(self.node):
                if isinstance(m, ast.Call) and isinstance(m.func, ast.Attribute) and isinstance(m.func.value, ast.Name) \
                        and m.func.attr in ("append", "pop", "extend", "insert", "write", "sort", "reverse", "remove", "clear"):
                    mutated.add(m.func.value.id)
                if isinstance(m, (ast.Assign, ast.AugAssign)):
                    for t in (m.targets if isinstance(m, ast.Assign) else [m.target]):
                        if isinstance(t, ast.Subscript) and isinstance(t.value, ast.Name):
                            mutated.add(t.value.id)
            self._mutated = mutated
        return self._mutated

    def _owned_object(self, obj, node):
        """Every use of the local `obj` (an object whose attributes are assigned) is `obj.attr` / `obj.m(..)`,
        `obj = <call>` (a fresh object) or `L.append(obj)` as a statement (which takes the name away): it never gets a
        second name, so rendering it by value is faithful."""
        done = self.__dict__.setdefault("_owned_ok", set())
        if obj in done:
            return
        if obj not in self.fun.locals:
            _bad("%r: only a local variable can hold an object whose attributes are assigned" % obj, node)
        allowed = set()
        for m in ast.walk(self.node):
            if isinstance(m, ast.Attribute) and isinstance(m.value, ast.Name) and m.value.id == obj:
                allowed.add(id(m.value))
            if isinstance(m, ast.Assign) and len(m.targets) == 1 and isinstance(m.targets[0], ast.Name) \
                    and m.targets[0].id == obj and isinstance(m.value, ast.Call):
                allowed.add(id(m.targets[0]))
            if isinstance(m, ast.Expr) and isinstance(m.value, ast.Call) and isinstance(m.value.func, ast.Attribute) \
                    and m.value.func.attr == "append" and len(m.value.args) == 1 and not m.value.keywords \
                    and isinstance(m.value.args[0], ast.Name) and m.value.args[0].id == obj:
                allowed.add(id(m.value.args[0]))
            if isinstance(m, ast.Return) and isinstance(m.value, ast.Name) and m.value.id == obj:
                allowed.add(id(m.value))    # `return obj`: the function ends here, its only name of the object with it
        for m in ast.walk(self.node):
            if isinstance(m, ast.Name) and m.id == obj and id(m) not in allowed:
                _bad("the object %r, whose attributes are assigned, is used other than as `%s.attr`, `%s = <call>` or "
                     "`L.append(%s)`: it could get a second name" % (obj, obj, obj, obj), m)
        done.add(obj)

    def _consume(self, value, env, node, into_object):
        """A value that is stored into a container / an object attribute.  If it is a bare local NAME of a mutable
        thing — an owned object, or (into_object) a list/dict/buffer that the function changes in place — the container
        now holds THE SAME object: the name is taken out of the environment (a later use before it is rebound fails
        closed; join points and loop back-edges require it to be rebound on every path)."""
        if isinstance(value, ast.Attribute) and ast.unparse(value) in self.stattr:
            t = self.decl.get(self.stattr[ast.unparse(value)])
            if isinstance(t, tuple) and t[0] == "coq" and t[1] in getattr(self.mod, "ref_types", ()):
                # Module.ref_types (opt-in): opaque types whose values are REFERENCES to objects that live in the state (a
                # heap): storing one into an object shares the object it refers to, which is what such a type renders
                return env
            if into_object and (t == "strbuf" or (isinstance(t, tuple) and t[0] in ("list", "iter", "dict", "coq"))):
                _bad("a mutable state attribute is stored into an object: two names of one object", node)
            return env
        if not (isinstance(value, ast.Name) and value.id in env):
            return env
        t = self.decl.get(value.id)
        owned = self._owned_type(t)
        if owned:
            self._owned_object(value.id, node)
        inplace = into_object and (t == "strbuf" or (isinstance(t, tuple) and t[0] in ("list", "iter", "dict"))) \
            and value.id in self._mutated_set()
        if not (owned or inplace):
            return env
        if value.id not in self.fun.locals:
            _bad("%r is handed over to a container but is not a local variable" % value.id, node)
        env2 = dict(env)
        del env2[value.id]
        return env2

    def falls_through(self, stmts):
        """Conservative: False only when the block certainly ends in return/raise/continue/break."""
        if not stmts:
            return True
        last = stmts[-1]
        if isinstance(last, (ast.Return, ast.Raise, ast.Continue, ast.Break)):
            return False
        if isinstance(last, ast.If):
            return self.falls_through(last.body) or self.falls_through(last.orelse)
        return True

    def _retyped(self, name, ety):
        """Fun.retype (opt-in, set after construction): {"x": [T1, T2…]} — a Python name that is REBOUND AT ANOTHER TYPE than
        its declared one (`key, _, _ = _unpack_key(key)`: a ParagraphKey, then a _strI): an assignment of a value whose
        type is one of the listed ones binds the name at that type from there on (a Coq `let` shadows at any type).
        Where environments meet (join points, loop back-edges, state tuples) the name is passed at its DECLARED type as
        before, so a path on which it still has the other type fails closed.  Never for a state variable.
        -> the listed type with the representation of `ety`, else None."""
        if name in self.stattr.values() or isinstance(ety, str) and ety in ("none", "nil"):
            return None
        for t in (getattr(self.fun, "retype", None) or {}).get(name, ()):
            if same_repr(ety, t) and not same_repr(t, self.decl.get(name)):
                return t
        return None

    def bind(self, name, e, env, node):
        """let name := e (coerced to the declared type); returns (text prefix, new env)."""
        ty = self.declared(name, node)
        env2 = dict(env)
        if self._retyped(name, e.ty) is not None:
            env2[name] = self._retyped(name, e.ty)      # Fun.retype: the name is rebound at another type
            return "let %s := %s in " % (cname(name), e.text), env2
        if self.fun.narrow and isinstance(ty, tuple) and ty[0] == "option" and e.ty not in ("none", "nil") \
                and same_repr(e.ty, ty[1]) and name not in self.stattr.values():     # (state attributes: never narrowed)
            env2[name] = ty[1]          # flow typing: the variable is known not to be None from here on
            return "let %s := %s in " % (cname(name), e.text), env2
        env2[name] = ty
        return "let %s := %s in " % (cname(name), coerce(e.text, e.ty, ty, node)), env2

    def _result_var(self, env, node):
        """Fun.result_var: the function returns None after changing this parameter in place; the translated
        function returns the parameter's final value.  Only sound if the name is never rebound (checked)."""
        rv = self.fun.result_var
        if rv not in [p for p, _ in self.fun.params] or self.fun.generator or self.method:
            _bad("result_var %r must be a parameter of a plain function" % rv, node)
        for m in ast.walk(self.node):
            tgts = []
            if isinstance(m, ast.Assign):
                tgts = m.targets
            elif isinstance(m, (ast.AugAssign, ast.For, ast.NamedExpr)):
                tgts = [m.target]
            for t in tgts:
                for q in ast.walk(t):
                    if isinstance(q, ast.Name) and q.id == rv and isinstance(q.ctx, ast.Store):
                        _bad("result_var %r is rebound: the caller's object is no longer the local one" % rv, m)
        return self.ok(coerce(cname(rv), env[rv], self.rty, node))

    def _probe(self, branches, ctx):
        """Dry run of alternative blocks: the environments with which each reaches its normal end.
        (Translator state is restored; used by the opt-in flow typing to type join points.)"""
        saved = (list(self.defs), self.nloop, self.ntmp, self.njoin)
        seen = []

        def rec(e):
            seen.append(dict(e))
            return "PROBE__"
        try:
            for stmts, e in branches:
                self.block(stmts, e, rec, ctx)
        finally:
            self.defs[:] = saved[0]
            self.nloop, self.ntmp, self.njoin = saved[1:]
        return seen

    def _narrowed(self, envs, names):
        """Variables among `names` declared ("option", T) that have type T in every environment of `envs`."""
        out = {}
        if not (self.fun.narrow and envs):
            return out
        for v in names:
            d = self.decl.get(v)
            if isinstance(d, tuple) and d[0] == "option" and all(v in e and same_repr(e[v], d[1]) and not same_repr(e[v], d)
                                                                 for e in envs):
                out[v] = d[1]
            # (Fun.retype) a name that has the SAME listed other type on every path into the join keeps it afterwards
            for t in (getattr(self.fun, "retype", None) or {}).get(v, ()):
                if v not in out and v not in self.stattr.values() and not same_repr(t, d) and all(v in e and e[v] == t for e in envs):
                    out[v] = t
        return out

    def block(self, stmts, env, k, ctx):
        if not stmts:
            return k(env)
        s, rest = stmts[0], stmts[1:]
        nxt = lambda env2: self.block(rest, env2, k, ctx)   # noqa: E731

        if isinstance(s, ast.Expr) and isinstance(s.value, ast.Constant) and isinstance(s.value.value, str):
            return nxt(env)
        if isinstance(s, ast.Pass):
            return nxt(env)
        if isinstance(s, ast.Delete) and len(s.targets) == 1 and isinstance(s.targets[0], ast.Subscript) \
                and not isinstance(s.targets[0].slice, ast.Slice) and isinstance(s.targets[0].value, ast.Attribute) \
                and ast.unparse(s.targets[0].value) in self.stattr \
                and (self.decl.get(self.stattr[ast.unparse(s.targets[0].value)]) or ("",))[0] == "coq":
            # del self.attr[k] on a state attribute holding an OPAQUE object (METHOD MODE): the spec's receiver-mutating
            # primitive "<type>.__delitem__" : obj -> k -> (unit * obj') [result of it: KeyError].  Python evaluates
            # self.attr, then k, then calls __delitem__.
            var = self.stattr[ast.unparse(s.targets[0].value)]
            oty = self.decl[var]
            cand = self.mod.calls.get("<%s>.__delitem__" % oty[1])
            if not (isinstance(cand, Call) and cand.mutates and len(cand.args) == 2 and cand.ret == "unit"):
                _bad("del %s[..] needs a mutating \"<%s>.__delitem__\" of two arguments returning unit" % (var, oty[1]), s)
            kx = self.expr(s.targets[0].slice, env, cand.args[1])
            if self._heap_rw():
                self._no_stm(kx.pre, s, "the key of a del statement")
            app = "%s %s %s" % (cand.coq, coerce(cname(var), oty, cand.args[0], s), coerce(kx.text, kx.ty, cand.args[1], s))
            rv, rr = self.tmp(), self.tmp()
            body = "let %s := %s in %s" % (cname(var), coerce(rr, cand.args[0], oty, s), nxt(env))
            if cand.monadic:
                pr = self.tmp()
                return self.swrap(kx.pre + [(pr, app)], "(let '(%s, %s) := %s in %s)" % (rv, rr, pr, body))
            return self.swrap(kx.pre, "(let '(%s, %s) := %s in %s)" % (rv, rr, app, body))
        if isinstance(s, ast.Delete):
            # `del x` of a local that is defined here: the name is undefined from here on (a later use fails closed)
            env2 = dict(env)
            for t in s.targets:
                if not (isinstance(t, ast.Name) and t.id in env and t.id in self.fun.locals):
                    _bad("del of anything but a defined local variable", s)
                del env2[t.id]
            return nxt(env2)
        if isinstance(s, ast.FunctionDef):
            # a nested helper: must be translated separately (its name must be a key of the spec's calls)
            if s.name not in self.mod.calls:
                _bad("nested function %s is not in the spec" % s.name, s)
            return nxt(env)
        if isinstance(s, ast.Return):
            if self.fun.generator:
                if s.value is not None:
                    _bad("return with a value in a generator", s)
                return self.ok("out__")
            if s.value is None:
                if self.fun.result_var is not None:
                    return self._result_var(env, s)
                if self.rty != "unit":
                    _bad("bare return in a function returning %r" % (self.rty,), s)
                return self.ok("tt")
            if self.fun.result_var is not None:
                _bad("return with a value in a function translated with result_var", s)
            e = self.expr(s.value, env, self.rty)
            return self.swrap(e.pre, self.ok(coerce(e.text, e.ty, self.rty, s)))
        if isinstance(s, ast.Raise) and s.exc is None and s.cause is None and ctx.get("reraise"):
            # bare `raise` in the body of an `except` handler (FunTr._try): the exception being handled, on the state
            # reached now
            return self.err(ctx["reraise"])
        if isinstance(s, ast.Raise):
            exc = s.exc
            nm = exc.func if isinstance(exc, ast.Call) else exc
            key = ast.unparse(nm).split(".")[-1] if nm is not None else None
            if key not in ERR:
                _bad("raise of %r" % key, s)
            # the message expression is evaluated first; only %-formatting of names/constants is accepted (cannot raise)
            if isinstance(exc, ast.Call):
                for a in exc.args:
                    if any(isinstance(m, (ast.Call, ast.Subscript, ast.Attribute)) for m in ast.walk(a)):
                        # … or a message that translates as a PURE expression (every call in it is rendered by the
                        # spec as a primitive that cannot raise, e.g. str(<int>)); its value is discarded
                        saved_tmp = self.ntmp
                        try:
                            self.pure(a, env)
                        except ExtractError:
                            # … or ONE message argument that may raise while it is evaluated (`line[0]`): that exception
                            # wins, as in Python (the message is evaluated before the exception object exists)
                            if len(exc.args) == 1 and not exc.keywords:
                                self.ntmp = saved_tmp
                                try:
                                    em = self.expr(a, env)
                                except ExtractError:
                                    em = None
                                if em is not None and not any(isinstance(m_, StM) for _, m_ in em.pre):
                                    return self.swrap(em.pre, self.err(ERR[key]))
                            _bad("exception message too complex to be known not to raise", s)
                        finally:
                            self.ntmp = saved_tmp
            return self.err(ERR[key])
        if isinstance(s, ast.Continue):
            if not ctx.get("cont"):
                _bad("continue outside a loop", s)
            return ctx["cont"](env)
        if isinstance(s, ast.Break):
            if not ctx.get("brk"):
                _bad("break outside a loop", s)
            return ctx["brk"](env)
        if isinstance(s, ast.Assign):
            if len(s.targets) != 1:
                _bad("multiple assignment targets", s)
            t = s.targets[0]
            if isinstance(t, ast.Name) and isinstance(s.value, ast.Attribute) and ast.unparse(s.value) in self.stattr \
                    and getattr(self.fun, "alias_state", {}).get(t.id) == ast.unparse(s.value):
                # x = self.attr declared as an alias (Fun.alias_state): x is read as self.attr in the rest of the block
                return self.block(self._alias_stmt(s, rest), env, k, ctx)
            if isinstance(t, ast.Attribute) and self.mod.attr_hooks.get(ast.unparse(t), (None, None))[1]:
                # an attribute served by __setattr__ (Module.attr_hooks): the assignment IS the statement
                # <setter>("<name>", value)
                hk = ast.copy_location(ast.Expr(value=self._hook_call(self.mod.attr_hooks[ast.unparse(t)][1], t, [s.value])), s)
                return self.block([hk] + list(rest), env, k, ctx)
            if isinstance(t, ast.Attribute) and ast.unparse(t) in self.stattr:
                t = ast.copy_location(ast.Name(id=self.stattr[ast.unparse(t)], ctx=ast.Store()), t)
            if isinstance(t, ast.Tuple) and any(isinstance(x, ast.Attribute) for x in t.elts) \
                    and all(isinstance(x, ast.Name) or (isinstance(x, ast.Attribute) and ast.unparse(x) in self.stattr
                                                        and not self.mod.attr_hooks.get(ast.unparse(x), (None, None))[1])
                            for x in t.elts):
                # self.a, self.b = e with state attributes among the targets: their state variables (the right-hand side
                # is evaluated first, the stores — of plain attributes: they cannot raise — follow from left to right)
                t = ast.copy_location(ast.Tuple(elts=[
                    ast.copy_location(ast.Name(id=self.stattr[ast.unparse(x)], ctx=ast.Store()), x)
                    if isinstance(x, ast.Attribute) else x for x in t.elts], ctx=ast.Store()), t)
            if isinstance(t, ast.Subscript) and isinstance(t.value, ast.Attribute) and ast.unparse(t.value) in self.stattr \
                    and isinstance(self.decl.get(self.stattr[ast.unparse(t.value)]), tuple) \
                    and self.decl[self.stattr[ast.unparse(t.value)]][0] == "coq":
                # self.attr[k] = v on a state attribute holding an OPAQUE object (METHOD MODE): item assignment on its
                # state variable ("<type>.__setitem__", as for a method call self.attr.m(..) that changes the object)
                t = ast.copy_location(ast.Subscript(
                    value=ast.copy_location(ast.Name(id=self.stattr[ast.unparse(t.value)], ctx=ast.Load()), t.value),
                    slice=t.slice, ctx=ast.Store()), t)
            if isinstance(t, ast.Attribute) and self._heap() is not None:
                # HEAP MODE: x.attr = e on a reference-typed expression x
                r_ = self._heap_attr_assign(s, t, env, nxt)
                if r_ is not None:
                    return r_
            sc = self._selfcall(s.value)
            if sc is not None:
                if not isinstance(t, ast.Name):
                    _bad("the result of a call of a method of the same object must be bound to a name", s)
                return self._self_stmt(sc, t.id, s.value, env, nxt, s)
            mc = self._mutating(s.value, env)
            if mc is not None and isinstance(t, ast.Name):
                return self._mut_stmt(mc, t.id, env, nxt, s)
            # x = list(recv.m(..)) for a receiver-mutating method whose rendering returns a list: list() consumes
            # the returned iterable completely, here, so all of m's effect on the receiver happens at this statement
            if isinstance(t, ast.Name) and isinstance(s.value, ast.Call) and ast.unparse(s.value.func) == "list" \
                    and "list" not in self.mod.calls and len(s.value.args) == 1 and not s.value.keywords:
                mc = self._mutating(s.value.args[0], env)
                if mc is not None and isinstance(mc[0].ret, tuple) and mc[0].ret[0] == "list":
                    return self._mut_stmt(mc, t.id, env, nxt, s)
            # x = l.pop(0)
            if isinstance(t, ast.Name) and isinstance(s.value, ast.Call) and isinstance(s.value.func, ast.Attribute) \
                    and s.value.func.attr == "pop" and isinstance(s.value.func.value, ast.Name):
                lst = s.value.func.value.id
                if lst not in env or not (isinstance(env[lst], tuple) and env[lst][0] == "list"):
                    _bad("pop on %r" % lst, s)
                args = s.value.args
                if not (len(args) == 1 and isinstance(args[0], ast.Constant) and args[0].value == 0):
                    _bad("only pop(0) is supported", s)
                ety = env[lst][1]
                env2 = dict(env)
                tty = self.declared(t.id, s)
                env2[t.id] = tty
                h = self.tmp()
                return "(match %s with [] => %s | %s :: %s => let %s := %s in %s end)" % (
                    cname(lst), self.err("IndexError"), h, cname(lst), cname(t.id), coerce(h, ety, tty, s), nxt(env2))
            if isinstance(t, ast.Name):
                e = self.expr(s.value, env, self.declared(t.id, s))
                pfx, env2 = self.bind(t.id, e, env, s)
                return self.swrap(e.pre, "(" + pfx + nxt(env2) + ")") if e.pre else "(" + pfx + nxt(env2) + ")"
            if isinstance(t, ast.Tuple) and all(isinstance(x, ast.Name) for x in t.elts):
                e = self.expr(s.value, env)
                if isinstance(e.ty, tuple) and e.ty[0] == "list" and t.elts:
                    # a, b = <a list>: ValueError unless the list has exactly as many elements as there are names
                    env2, fresh, lets = dict(env), [], ""
                    for x in t.elts:
                        f = self.tmp()
                        fresh.append(f)
                        dty = self.declared(x.id, s)
                        env2[x.id] = dty
                        lets += "let %s := %s in " % (cname(x.id), coerce(f, e.ty[1], dty, s))
                    return self.swrap(e.pre, "(match %s with [%s] => %s%s | _ => %s end)" % (
                        e.text, "; ".join(fresh), lets, nxt(env2), self.err("ValueError")))
                if not (isinstance(e.ty, tuple) and e.ty[0] == "tuple" and len(e.ty) - 1 == len(t.elts)):
                    _bad("tuple unpacking of %r" % (e.ty,), s)
                env2 = dict(env)
                fresh = []
                lets = ""
                for x, ty in zip(t.elts, e.ty[1:]):
                    f = self.tmp()
                    fresh.append(f)
                    dty = self._retyped(x.id, ty) or self.declared(x.id, s)      # (Fun.retype: rebound at another type)
                    env2[x.id] = dty
                    lets += "let %s := %s in " % (cname(x.id), coerce(f, ty, dty, s))
                body = "(let '(%s) := %s in %s%s)" % (", ".join(fresh), e.text, lets, nxt(env2))
                return self.swrap(e.pre, body)
            if isinstance(t, ast.Subscript) and isinstance(t.value, ast.Name) and t.value.id in env:
                obj = t.value.id
                oty = env[obj]
                if isinstance(oty, tuple) and oty[0] == "dict" and not isinstance(t.slice, ast.Slice):
                    # d[k] = v on a dict with str keys (association list): Python evaluates v, then d, then k;
                    # str keys are hashable, so the store itself cannot raise
                    ty_coq(oty)
                    v = self.expr(s.value, env, oty[2])
                    kx = self.expr(t.slice, env, "str")
                    return self.swrap(v.pre + kx.pre, "(let %s := tr_dict_set %s %s %s in %s)" % (
                        cname(obj), cname(obj), coerce(kx.text, kx.ty, "str", s), coerce(v.text, v.ty, oty[2], s), nxt(env)))
                if isinstance(oty, tuple) and oty[0] == "coq" and not isinstance(t.slice, ast.Slice):
                    # obj[k] = v on an opaque object (a variable or, in method mode, a state variable): the spec's
                    # receiver-mutating primitive "<type>.__setitem__" : obj -> k -> v -> (unit * obj') [result of it].
                    # Python evaluates v, then obj, then k, then calls __setitem__.
                    cand = self._by_literal_key(self.mod.calls.get("<%s>.__setitem__" % oty[1]), t.slice)
                    if isinstance(cand, Call) and cand.substate and len(cand.args) == 3 and cand.ret == "unit" \
                            and not cand.mutates:
                        # … or, when obj is a REFERENCE to a container object that lives in (part of) the state — a heap
                        # of dict objects — "<T>.__setitem__" is a primitive with Call.substate whose parameters stand
                        # IN EVALUATION ORDER: (value, container, key).  The store changes the heap, not the reference.
                        e = self._sub_call_expr(cand, [s.value, t.value, t.slice], env, s)
                        env2 = dict(env)
                        for _, v_, t_ in self.fun.state:
                            env2[v_] = t_
                        return self.swrap(e.pre, nxt(env2))
                    if isinstance(cand, Call) and cand.selfmethod:
                        # … or, when obj IS the object of a method in METHOD MODE (its one state variable, source text
                        # = variable name, e.g. state=[("self", "self", T)]) and "<T>.__setitem__" is a translated method
                        # of the same module (Call.selfmethod): the call self.__setitem__(k, v) on the current state.
                        # k and v must be pure (Python evaluates v before k; _self_stmt evaluates in argument order).
                        if not (self.method and [(a_, v_) for a_, v_, _ in self.fun.state] == [(obj, obj)]):
                            _bad("%s[..] = ..: %r is not the object (the one state variable) of this method" % (obj, obj), s)
                        self.pure(t.slice, env, cand.args[0] if cand.args else None)
                        self.pure(s.value, env, cand.args[1] if len(cand.args) > 1 else None)
                        fake = ast.copy_location(ast.Call(
                            func=ast.Attribute(value=ast.Name(id=obj, ctx=ast.Load()), attr="__setitem__", ctx=ast.Load()),
                            args=[t.slice, s.value], keywords=[]), s)
                        return self._self_stmt(cand, None, fake, env, nxt, s)
                    if not (isinstance(cand, Call) and cand.mutates and len(cand.args) == 3 and cand.ret == "unit"):
                        _bad("item assignment on %r needs a mutating \"<%s>.__setitem__\" of three arguments returning unit"
                             % (oty, oty[1]), s)
                    v = self.expr(s.value, env, cand.args[2])
                    kx = self.expr(t.slice, env, cand.args[1])
                    if self._heap_rw():     # (obj is read AFTER the value, but BEFORE the key is evaluated; rendered last)
                        self._no_stm(kx.pre, s, "the key of an item assignment")
                    app = "%s %s %s %s" % (cand.coq, coerce(cname(obj), oty, cand.args[0], s),
                                           coerce(kx.text, kx.ty, cand.args[1], s), coerce(v.text, v.ty, cand.args[2], s))
                    rv, rr = self.tmp(), self.tmp()
                    body = "let %s := %s in %s" % (cname(obj), coerce(rr, cand.args[0], self.declared(obj, s), s), nxt(env))
                    if cand.monadic:
                        pr = self.tmp()
                        return self.swrap(v.pre + kx.pre + [(pr, app)], "(let '(%s, %s) := %s in %s)" % (rv, rr, pr, body))
                    return self.swrap(v.pre + kx.pre, "(let '(%s, %s) := %s in %s)" % (rv, rr, app, body))
                if not (isinstance(oty, tuple) and oty[0] == "list"):
                    _bad("item assignment on %r" % (oty,), s)
                if isinstance(t.slice, ast.Slice):
                    if t.slice.step is not None:
                        _bad("slice step", s)
                    lo = self.expr(t.slice.lower, env, "Z") if t.slice.lower is not None else None
                    hi = self.expr(t.slice.upper, env, "Z") if t.slice.upper is not None else None
                    v = self.expr(s.value, env, oty)
                    pre = (lo.pre if lo else []) + (hi.pre if hi else []) + v.pre
                    return self.swrap(pre, "(let %s := tr_slice_assign %s %s %s %s in %s)" % (
                        cname(obj), cname(obj), "(Some %s)" % lo.text if lo else "None",
                        "(Some %s)" % hi.text if hi else "None", coerce(v.text, v.ty, oty, s), nxt(env)))
                v = self.expr(s.value, env, oty[1])     # Python evaluates the value first
                i = self.expr(t.slice, env, "Z")
                tmpn = self.tmp()
                return self.swrap(v.pre + i.pre + [(tmpn, "tr_set_index %s %s %s" % (cname(obj), i.text, coerce(v.text, v.ty, oty[1], s)))],
                            "(let %s := %s in %s)" % (cname(obj), tmpn, nxt(env)))
            if isinstance(t, ast.Attribute) and isinstance(t.value, ast.Name) and t.value.id in env \
                    and self._owned_type(env[t.value.id]):
                # obj.attr = e on a local object of an opaque type with setters ("<T>.@attr=": obj -> value -> obj, pure).
                # Python evaluates e first; the store itself cannot raise (a plain attribute: the spec author's claim).
                obj, oty = t.value.id, env[t.value.id]
                g = self.mod.calls.get("<%s>.@%s=" % (oty[1], t.attr))
                if isinstance(g, Call) and g.substate and len(g.args) == 2 and not g.mutates and same_repr(g.ret, g.args[0]):
                    # … or a setter with Call.substate: storing the value into the object changes (part of) the state — a
                    # container that was built as a VALUE is PUBLISHED into a heap of container objects, where the object
                    # and the local name now denote the same thing.  Faithful only if the value is not changed through
                    # the local name afterwards: the statement must stand at the top level of the function and no later
                    # statement of that level may (re)bind or change the name (fail closed otherwise).
                    self._owned_object(obj, s)
                    if isinstance(s.value, ast.Name):
                        if not any(s is x_ for x_ in self.node.body) or s.value.id in self.assigned(list(rest)):
                            _bad("%s is stored into %s.%s (published) and may be changed afterwards through its name"
                                 % (s.value.id, obj, t.attr), s)
                    e = self._sub_call_expr(g, [t.value, s.value], env, s)
                    env2 = dict(env)
                    for _, v_, t_ in self.fun.state:
                        env2[v_] = t_
                    return self.swrap(e.pre, "(let %s := %s in %s)" % (
                        cname(obj), coerce(e.text, g.ret, self.declared(obj, s), s), nxt(env2)))
                if not (isinstance(g, Call) and len(g.args) == 2 and not g.monadic and not g.mutates
                        and same_repr(g.ret, g.args[0])):
                    _bad("no setter \"<%s>.@%s=\" (object -> value -> object) in the spec" % (oty[1], t.attr), s)
                self._owned_object(obj, s)
                v = self.expr(s.value, env, g.args[1])
                env2 = self._consume(s.value, env, s, True)
                return self.swrap(v.pre, "(let %s := %s %s %s in %s)" % (
                    cname(obj), g.coq, coerce(cname(obj), oty, g.args[0], s), coerce(v.text, v.ty, g.args[1], s), nxt(env2)))
            if isinstance(t, ast.Attribute) and isinstance(t.value, ast.Attribute) and ast.unparse(t.value) in self.stattr:
                # self.attr.f = e on a STATE ATTRIBUTE that holds an opaque object (a record threaded by value, e.g. the
                # LinkedList inside a view), by the spec's pure setter "<T>.@f=": obj -> value -> obj — the state variable is
                # rebound.  Python evaluates e first; the store itself cannot raise (a plain attribute: the spec author's claim).
                sv = self.stattr[ast.unparse(t.value)]
                oty = self.decl.get(sv)
                g = self.mod.calls.get("<%s>.@%s=" % (oty[1], t.attr)) if isinstance(oty, tuple) and oty[0] == "coq" else None
                if isinstance(g, Call) and len(g.args) == 2 and not g.monadic and not g.mutates and not g.substate \
                        and same_repr(g.ret, g.args[0]) and same_repr(g.args[0], oty):
                    v = self.expr(s.value, env, g.args[1])
                    return self.swrap(v.pre, "(let %s := %s %s %s in %s)" % (
                        cname(sv), g.coq, cname(sv), coerce(v.text, v.ty, g.args[1], s), nxt(env)))
            _bad("assignment target %s" % ast.unparse(t), s)
        if isinstance(s, ast.AugAssign):
            if isinstance(s.target, ast.Attribute) and ast.unparse(s.target) in self.stattr:
                s = ast.copy_location(ast.AugAssign(
                    target=ast.copy_location(ast.Name(id=self.stattr[ast.unparse(s.target)], ctx=ast.Store()), s.target),
                    op=s.op, value=s.value), s)
            if isinstance(s.target, ast.Subscript) and not isinstance(s.target.slice, ast.Slice) \
                    and isinstance(s.op, ast.BitOr):
                # o[k] |= e on an opaque container held in a local variable (_item_op_stmt)
                r_ = self._item_op_stmt(s.target.value, s.target.slice, "__ior__", [s.value], env, nxt, s)
                if r_ is not None:
                    return r_
            if not isinstance(s.target, ast.Name):
                _bad("augmented assignment target", s)
            fake = ast.BinOp(left=ast.Name(id=s.target.id, ctx=ast.Load()), op=s.op, right=s.value)
            ast.copy_location(fake, s)
            ast.fix_missing_locations(fake)
            e = self.expr(fake, env)
            if self._heap_rw():
                # (the target is read BEFORE the right-hand side is evaluated, but rendered after its prelude)
                self._no_stm(e.pre, s, "the right-hand side of an augmented assignment")
            pfx, env2 = self.bind(s.target.id, e, env, s)
            return self.swrap(e.pre, "(" + pfx + nxt(env2) + ")")
        if isinstance(s, ast.Expr) and isinstance(s.value, ast.Yield):
            if not self.fun.generator or s.value.value is None:
                _bad("yield", s)
            e = self.expr(s.value.value, env, self.fun.ret)
            return self.swrap(e.pre, "(let out__ := out__ ++ [%s] in %s)" % (coerce(e.text, e.ty, self.fun.ret, s), nxt(env)))
        if isinstance(s, ast.Expr) and isinstance(s.value, ast.YieldFrom):
            # `yield from X` in a generator that is rendered as the list of what it yields: X (a list: another generator
            # rendered that way, or a generator expression — consumed completely, here) is appended.  As for `yield`,
            # the consumer is taken to exhaust the generator; an exception inside X comes out of this statement.
            if not self.fun.generator:
                _bad("yield from", s)
            x = s.value.value
            if isinstance(x, ast.GeneratorExp):
                x = ast.copy_location(ast.ListComp(elt=x.elt, generators=x.generators), x)
            e = self._iter_monadic(self.expr(x, env, ("list", self.fun.ret)), s)
            if not (isinstance(e.ty, tuple) and e.ty[0] in ("list", "iter") and same_repr(e.ty[1], self.fun.ret)):
                _bad("yield from a value of type %r in a generator of %r" % (e.ty, self.fun.ret), s)
            return self.swrap(e.pre, "(let out__ := out__ ++ %s in %s)" % (e.text, nxt(env)))
        if isinstance(s, ast.Expr) and isinstance(s.value, ast.Call) and self._heap_rw():
            # HEAP MODE: a call of a function that runs on (part of) the state, as a statement; its value is dropped
            saved_tmp = self.ntmp
            try:
                e = self.expr(s.value, env)
            except ExtractError as ex:
                e = None
                self._heap_stmt_err = " (as a call on the state: %s)" % ex
            if e is not None and e.pre and isinstance(e.pre[-1][1], StM) and e.pre[-1][0] == e.text:
                env2 = dict(env)
                for _, v_, t_ in self.fun.state:
                    env2[v_] = t_
                return self.swrap(e.pre, nxt(env2))
            self.ntmp = saved_tmp
        if isinstance(s, ast.Expr) and isinstance(s.value, ast.Call):
            sc = self._selfcall(s.value)
            if sc is not None:
                return self._self_stmt(sc, None, s.value, env, nxt, s)
            mc = self._mutating(s.value, env)
            if mc is not None:
                return self._mut_stmt(mc, None, env, nxt, s)
            mi = self._mutating_item(s.value, env)
            if mi is not None:
                return self._mut_item_stmt(mi, env, nxt, s)
            c_ = s.value
            if isinstance(c_.func, ast.Attribute) and isinstance(c_.func.value, ast.Subscript) \
                    and not isinstance(c_.func.value.slice, ast.Slice) and not c_.keywords:
                # o[k].m(a…) on an opaque container held in a local variable (_item_op_stmt)
                r_ = self._item_op_stmt(c_.func.value.value, c_.func.value.slice, c_.func.attr, list(c_.args), env, nxt, s)
                if r_ is not None:
                    return r_
        if isinstance(s, ast.Expr) and isinstance(s.value, ast.Call) and isinstance(s.value.func, ast.Attribute) \
                and isinstance(s.value.func.value, ast.Name) and s.value.func.value.id in env:
            obj, meth, args = s.value.func.value.id, s.value.func.attr, s.value.args
            oty = env[obj]
            if meth == "append" and len(args) == 1 and isinstance(oty, tuple) and oty[0] == "list":
                e = self.expr(args[0], env, oty[1])
                return self.swrap(e.pre, "(let %s := %s ++ [%s] in %s)" % (cname(obj), cname(obj), coerce(e.text, e.ty, oty[1], s), nxt(env)))
            if meth == "write" and len(args) == 1 and oty == "strbuf":
                e = self.expr(args[0], env, "str")
                return self.swrap(e.pre, "(let %s := %s ++ %s in %s)" % (cname(obj), cname(obj), coerce(e.text, e.ty, "str", s), nxt(env)))
            if meth == "extend" and len(args) == 1 and not s.value.keywords and isinstance(oty, tuple) and oty[0] == "list" \
                    and obj in self.fun.locals and isinstance(args[0], (ast.GeneratorExp, ast.ListComp)):
                # L.extend(<comprehension / generator expression>) on a LOCAL list: the items are produced first, left to
                # right (an exception among them leaves L partly extended, which nothing can see: no handler in this
                # function covers a statement that rebinds a local, _try), then appended
                a0 = args[0]
                if isinstance(a0, ast.GeneratorExp):
                    a0 = ast.copy_location(ast.ListComp(elt=a0.elt, generators=a0.generators), a0)
                e = self.expr(a0, env, oty)
                return self.swrap(e.pre, "(let %s := %s ++ %s in %s)" % (cname(obj), cname(obj), coerce(e.text, e.ty, oty, s), nxt(env)))
            if meth == "extend" and len(args) == 1 and not s.value.keywords and isinstance(oty, tuple) and oty[0] == "list" \
                    and obj in self.fun.locals and isinstance(args[0], ast.Name) and args[0].id in env \
                    and same_repr(env[args[0].id], oty) and args[0].id != obj:
                # L.extend(M) for another list variable M (copied element by element; cannot raise)
                return "(let %s := %s ++ %s in %s)" % (cname(obj), cname(obj), cname(args[0].id), nxt(env))
            _bad("statement %s" % ast.unparse(s) + getattr(self, "_heap_stmt_err", ""), s)
        if isinstance(s, ast.If):
            return self._if(s, rest, env, k, ctx)
        if isinstance(s, ast.While):
            return self._while(s, rest, env, k, ctx)
        if isinstance(s, ast.For):
            return self._for(s, rest, env, k, ctx)
        if isinstance(s, ast.Try):
            return self._try(s, rest, env, k, ctx)
        if isinstance(s, ast.Assert):
            # assert c[, msg]  is  `if not c: raise AssertionError(msg)`  (the interpreter does not run with -O)
            exc = ast.Call(func=ast.Name(id="AssertionError", ctx=ast.Load()),
                           args=[s.msg] if s.msg is not None else [], keywords=[])
            des = ast.If(test=ast.UnaryOp(op=ast.Not(), operand=s.test), body=[ast.Raise(exc=exc, cause=None)], orelse=[])
            for m in ast.walk(des):
                if not hasattr(m, "lineno"):
                    ast.copy_location(m, s)
            ast.fix_missing_locations(des)
            return self.block([des] + list(rest), env, k, ctx)
        _bad("statement %s" % type(s).__name__ + getattr(self, "_heap_stmt_err", ""), s)

    # kinds (Lib/Base.err) that `except <class>` certainly catches / may or may not catch.  A kind stands for several
    # classes (harness.core.err_kind: the first class of the MRO that has a kind): FormatError covers
    # MachineReadableFormatError (a ValueError) and NotMachineReadableError (not one), IOError covers
    # io.UnsupportedOperation (an OSError AND a ValueError).  An exception of an undecidable kind that reaches the
    # handler ends the translated function with OutOfFuel ("outside what is rendered faithfully"): the tie theorem
    # has no such case, so it has to prove that this never happens.
    CATCHES = {"ValueError": (("ValueError",), ("FormatError", "IOError")), "TypeError": (("TypeError",), ()),
               "KeyError": (("KeyError",), ()), "IndexError": (("IndexError",), ()),
               # every kind stands for subclasses of Exception only (OtherError: AttributeError, EOFError, …) — except
               # OutOfFuel, which is no Python exception at all and is never caught
               "Exception": (("ValueError", "KeyError", "TypeError", "IndexError", "ParseError", "DebError", "IOError",
                              "FormatError", "AssertionError", "NotImplementedError", "StopIteration", "OtherError"), ())}

    def _try(self, s, rest, env, k, ctx):
        """try: B  except (E1, E2): H   in METHOD MODE.  B runs on the current state; it may raise.  On an exception the
        handlers are tried in order by exception kind; the handler body runs on the STATE REACHED AT THE RAISE POINT
        (what `MErr e st` carries — Python keeps the partial effects), any other kind propagates with that state.
        Restrictions (fail closed): no else/finally, no `as` name, no bare except; B contains no return, yield, loop,
        nested try or function, no break/continue, and (re)binds NO local variable — the values of locals at the
        raise point are not carried by `MErr`, so H and what follows see the locals as they were before the try."""
        if self._is_try_assign(s):
            return self._try_assign(s, rest, env, k, ctx)
        if len(s.body) == 1 and isinstance(s.body[0], ast.Return) and s.body[0].value is not None and s.handlers \
                and not s.orelse and not s.finalbody and not self.fun.generator and self.fun.result_var is None:
            # try: return E  except K: H    is    try: tryret__ = E  except K: H  else: return tryret__   (_try_assign):
            # `return` itself cannot raise, so the handlers guard exactly the evaluation of E
            tmpn = "tryret__"
            if tmpn in self.decl and self.decl[tmpn] != self.rty:
                _bad("name clash with %s" % tmpn, s)
            if tmpn not in self.decl:
                self.decl[tmpn] = self.rty
                self.order.append(tmpn)
            self.fun.locals.setdefault(tmpn, self.rty)
            asn = ast.Assign(targets=[ast.Name(id=tmpn, ctx=ast.Store())], value=s.body[0].value)
            ret = ast.Return(value=ast.Name(id=tmpn, ctx=ast.Load()))
            des = ast.Try(body=[asn], handlers=s.handlers, orelse=[ret], finalbody=[])
            for m in (asn, ret, des):
                ast.copy_location(m, s)
                ast.fix_missing_locations(m)
            return self._try_assign(des, rest, env, k, ctx)
        if not self.method or self.fun.generator:
            _bad("try/except is supported in method mode only", s)
        if s.orelse or s.finalbody or not s.handlers:
            _bad("try with else/finally (or without a handler)", s)
        for b in s.body:
            for m in ast.walk(b):
                if isinstance(m, (ast.Return, ast.Yield, ast.YieldFrom, ast.While, ast.For, ast.Try, ast.FunctionDef,
                                  ast.Lambda, ast.Break, ast.Continue, ast.With, ast.Delete, ast.NamedExpr)):
                    _bad("%s inside a try body" % type(m).__name__, m)
        stvars = [v for _, v, _ in self.fun.state]
        loc = [v for v in self.assigned(s.body) if v not in stvars]
        if self._heap_rw():
            # (HEAP MODE) `assigned` counts every name that occurs in a target, also the k of `self.attr[k] = v`; names
            # that are only READ there are not rebound: stores, in-place changes of a named list, subscript stores
            # into a named container
            real = set()
            for b in s.body:
                for m in ast.walk(b):
                    if isinstance(m, ast.Name) and not isinstance(m.ctx, ast.Load):
                        real.add(m.id)
                    if isinstance(m, ast.Subscript) and not isinstance(m.ctx, ast.Load) and isinstance(m.value, ast.Name):
                        real.add(m.value.id)
                    if isinstance(m, ast.Call) and isinstance(m.func, ast.Attribute) and isinstance(m.func.value, ast.Name):
                        real.add(m.func.value.id)
            loc = [v for v in loc if v in real]
        if loc:
            _bad("the try body (re)binds local variables %r: their values at the raise point would be lost" % loc, s)
        arms, seen = [], set()
        for h in s.handlers:
            if h.type is None or h.name is not None:
                _bad("bare except / except … as name", h)
            classes = h.type.elts if isinstance(h.type, ast.Tuple) else [h.type]
            sure, maybe = [], []
            for c in classes:
                cn = ast.unparse(c)
                if cn not in self.CATCHES:
                    _bad("except %s: no table of the kinds it catches" % cn, h)
                sure += [x for x in self.CATCHES[cn][0] if x not in sure]
                maybe += [x for x in self.CATCHES[cn][1] if x not in maybe]
            arms.append((h, [x for x in sure if x not in seen], [x for x in maybe if x not in sure and x not in seen]))
            seen.update(sure)
            seen.update(maybe)
        after = lambda env2: self.block(rest, env2, k, ctx)   # noqa: E731
        env_st = dict(env)
        for _, v, t in self.fun.state:
            env_st[v] = t
        if any(self.falls_through(h.body) for h in s.handlers):
            pfx, kk = self.join(env_st, self.assigned(s.body) + sum((self.assigned(h.body) for h in s.handlers), []), after)
        else:
            pfx, kk = "", after
        body = self.block(s.body, env, lambda e: self.ok("tt"), {})     # : mres unit <state>
        stv, ev = self.tmp(), self.tmp()
        cases = ""
        for h, sure, maybe in arms:
            if sure:
                cases += "| %s => %s " % (" | ".join(sure), self.block(h.body, env_st, kk, dict(ctx, reraise=ev)))
            if maybe:
                cases += "| %s => %s " % (" | ".join(maybe), self.err("OutOfFuel"))
        return "(%smatch %s with MOk _ %s => let '%s := %s in %s | MErr %s %s => let '%s := %s in (match %s with %s| _ => %s end) end)" % (
            pfx, body, stv, self.st_tuple(), stv, kk(env_st), ev, stv, self.st_tuple(), stv, ev, cases,
            "MErr %s %s" % (ev, self.st_tuple()))

    def _is_try_assign(self, s):
        """try: <one assignment `x = E` to a declared LOCAL name>  except ..: ..  [else: ..]   (no finally)"""
        return (len(s.body) == 1 and isinstance(s.body[0], ast.Assign) and len(s.body[0].targets) == 1
                and isinstance(s.body[0].targets[0], ast.Name) and s.body[0].targets[0].id in self.fun.locals
                and bool(s.handlers) and not s.finalbody)

    def _try_assign(self, s, rest, env, k, ctx):
        """try: x = E   except (K1, K2): H  …   [else: L]      — in any mode.
        The try body is ONE assignment of an expression to a local name.  If evaluating E raises, nothing has been
        bound (x keeps the value it had, if it had one) and nothing else has changed — E is rendered in `result`; a
        call that changes the object's state inside it fails closed (`wrap`) — so H sees every variable as it was
        before the try.  If E does not raise, x is bound and the else block L runs; exceptions of L and of H are not
        handled here.  Handlers are tried in order, by kind: CATCHES as in _try, extended by Module.catches
        ({class name: (kinds certainly caught, kinds possibly caught)} — the spec author's claim about what a kind stands
        for in the try bodies of this module, e.g. OtherError = AttributeError); an undecidable kind that reaches a
        handler ends in OutOfFuel, any other kind propagates.  `as` names, bare except and finally fail closed."""
        asn = s.body[0]
        x = asn.targets[0].id
        table = dict(self.CATCHES)
        table.update(getattr(self.mod, "catches", None) or {})
        arms, seen = [], set()
        for h in s.handlers:
            if h.type is None or h.name is not None:
                _bad("bare except / except … as name", h)
            classes = h.type.elts if isinstance(h.type, ast.Tuple) else [h.type]
            sure, maybe = [], []
            for c in classes:
                cn = ast.unparse(c)
                if cn not in table:
                    _bad("except %s: no table of the kinds it catches" % cn, h)
                sure += [y for y in table[cn][0] if y not in sure]
                maybe += [y for y in table[cn][1] if y not in maybe]
            arms.append((h, [y for y in sure if y not in seen], [y for y in maybe if y not in sure and y not in seen]))
            seen.update(sure)
            seen.update(maybe)
        e = self.expr(asn.value, env, self.declared(x, s))
        m = wrap(e.pre, "Ok %s" % e.text)        # (fails closed on a call that changes the object's state)
        okv, ev = self.tmp(), self.tmp()
        pfx_bind, env_else = self.bind(x, E([], okv, e.ty), env, s)
        after = lambda env2: self.block(rest, env2, k, ctx)   # noqa: E731
        branches = [(list(h.body), env) for h in s.handlers] + [(list(s.orelse), env_else)]
        if sum(1 for b_, _ in branches if self.falls_through(b_)) >= 2:
            asg = [x] + sum((self.assigned(b_) for b_, _ in branches), [])
            owned = any(self._owned_type(t_) for t_ in self.decl.values())
            ends = self._probe(branches, dict(ctx, reraise=ev)) if (self.fun.narrow or self.fun.join_defines or owned) else []
            narrowed = self._narrowed(ends, asg) if self.fun.narrow else None
            fresh = tuple(v for v in asg if v not in env and v in self.decl and ends and all(v in e_ for e_ in ends)) \
                if self.fun.join_defines else ()
            gone = tuple(v for v in asg if v in env and any(v not in e_ for e_ in ends)) if owned else ()
            pfx, kk = self.join(env, asg, after, narrowed, fresh, gone)
        else:
            pfx, kk = "", after
        ctx_b = dict(ctx, injoin=True) if pfx else ctx
        t_else = self.block(list(s.orelse), env_else, kk, ctx_b)
        cases = ""
        for h, sure, maybe in arms:
            if sure:
                cases += "| %s => %s " % (" | ".join(sure), self.block(list(h.body), env, kk, dict(ctx_b, reraise=ev)))
            if maybe:
                cases += "| %s => %s " % (" | ".join(maybe), self.err("OutOfFuel"))
        return "(%smatch %s with Ok %s => (%s%s) | Err %s => (match %s with %s| _ => %s end) end)" % (
            pfx, m, okv, pfx_bind, t_else, ev, ev, cases, self.err(ev))

    def _alias_stmt(self, s, rest):
        """`x = self.attr` with Fun.alias_state = {"x": "self.attr"} (METHOD MODE; attr a state attribute): from here on x
        and self.attr are two names of ONE list object, which the code changes in place through x.  Values cannot
        express that; but if the alias cannot come apart, x can simply be READ AS self.attr.  Returns the statements
        that follow (`rest`) with every read of x replaced by self.attr and every `self.attr = x` (the same object
        again: no effect) dropped.  Fails closed unless, in `rest`: x is never rebound/deleted; self.attr is
        re-assigned only by `self.attr = x`; no method of the same object is called (it could rebind self.attr); no
        nested function; and x occurs nowhere else in the function (so it is dead after this block)."""
        import copy
        x, attr = s.targets[0].id, ast.unparse(s.value)
        if not self.method or self.mod.attr_hooks or x not in self.fun.locals:
            _bad("alias %s = %s: needs method mode, no attribute hooks, and %s a declared local" % (x, attr, x), s)
        count = lambda tree: sum(1 for m in ast.walk(tree) if isinstance(m, ast.Name) and m.id == x)   # noqa: E731
        if count(self.node) != count(ast.Module(body=list(rest), type_ignores=[])) + 1:
            _bad("the alias %s of %s is used outside the block that follows `%s = %s`" % (x, attr, x, attr), s)
        outer = self

        class Sub(ast.NodeTransformer):
            def visit_Assign(self_, n):
                if len(n.targets) == 1 and isinstance(n.targets[0], ast.Attribute) and ast.unparse(n.targets[0]) == attr \
                        and isinstance(n.value, ast.Name) and n.value.id == x:
                    return ast.copy_location(ast.Pass(), n)
                return self_.generic_visit(n)

            def visit_Attribute(self_, n):
                if ast.unparse(n) == attr and not isinstance(n.ctx, ast.Load):
                    _bad("%s is re-assigned while %s is another name of the list it holds" % (attr, x), n)
                return self_.generic_visit(n)

            def visit_Name(self_, n):
                if n.id != x:
                    return n
                if not isinstance(n.ctx, ast.Load):
                    _bad("%s is rebound while it is another name of the list in %s" % (x, attr), n)
                new = ast.parse(attr, mode="eval").body
                for m in ast.walk(new):
                    ast.copy_location(m, n)
                return new

            def visit_Call(self_, n):
                if outer._selfcall(n) is not None:
                    _bad("a method of the same object is called while %s is another name of the list in %s" % (x, attr), n)
                return self_.generic_visit(n)

            def visit_FunctionDef(self_, n):
                _bad("nested function while %s is another name of the list in %s" % (x, attr), n)

            visit_Lambda = visit_AsyncFunctionDef = visit_FunctionDef

        out = [Sub().visit(copy.deepcopy(st)) for st in rest]
        for st in out:
            ast.fix_missing_locations(st)
        return out

    def _mut_then_break(self, loop, nm):
        """Every statement of the body of `loop` that may change `nm` (the list being iterated over) stands in a
        statement list — not inside a nested loop — that ENDS in `break`, with no `continue` and no loop between it
        and that break: the iteration is abandoned right after the change (the list iterator is never asked again),
        so evaluating the iterable once, before the loop, is faithful."""
        def ok_list(stmts):
            for j, st in enumerate(stmts):
                if nm not in self.assigned([st]):
                    continue
                if isinstance(st, ast.If):
                    if not (ok_list(st.body) and ok_list(st.orelse)):
                        return False
                    continue
                if not isinstance(st, (ast.Assign, ast.AugAssign, ast.Expr)):
                    return False        # a nested loop, try, with … that changes nm
                tail = stmts[j + 1:]
                if not tail or not isinstance(tail[-1], ast.Break):
                    return False
                for t in tail:
                    if any(isinstance(m, (ast.Continue, ast.For, ast.While, ast.Try, ast.With)) for m in ast.walk(t)):
                        return False
            return True
        return ok_list(loop.body)

    def _hook_call(self, func_src, attr_node, extra):
        """The call `<func_src>("<attribute name>", *extra)` that an attribute read/assignment served by
        __getattr__/__setattr__ stands for (Module.attr_hooks)."""
        call = ast.Call(func=ast.parse(func_src, mode="eval").body, args=[ast.Constant(value=attr_node.attr)] + list(extra),
                        keywords=[])
        ast.copy_location(call, attr_node)
        for m in ast.walk(call.func):
            ast.copy_location(m, attr_node)
        ast.copy_location(call.args[0], attr_node)
        return call

    def _selfcall(self, call):
        """`self.m(args)` where the spec renders "self.m" by a Call with `selfmethod` (or a hand-written primitive on
        the object's state, `stateprim`) -> that Call, else None."""
        if not isinstance(call, ast.Call):
            return None
        c = self.mod.calls.get(ast.unparse(call.func))
        return c if isinstance(c, Call) and (c.selfmethod or c.stateprim) else None

    def _stprim_stmt(self, cand, target, call, env, nxt, node):
        """[target =] f(args) for a hand-written primitive on the object's state (Call.stateprim)."""
        if not self.method:
            _bad("%s: a primitive on the object's state needs method mode" % ast.unparse(call.func), node)
        call = self._strip_forwarded(call)      # F(.., *args, **kwargs) handing on opaque arguments (Fun.forwards_varargs)
        if call.keywords or len(call.args) != len(cand.args) or any(isinstance(a, ast.Starred) for a in call.args):
            _bad("arguments of %s" % ast.unparse(call), node)
        es = [self.expr(a, env, w) for a, w in zip(call.args, cand.args)]
        texts = [coerce(e.text, e.ty, w, node) for e, w in zip(es, cand.args)]
        app = " ".join([cand.coq] + [cname(g) for g, _ in self.fun.ghost] + [cname(v) for _, v, _ in self.fun.state] + texts)
        rv, stv, ev = self.tmp(), self.tmp(), self.tmp()
        env2 = dict(env)
        for _, v, t in self.fun.state:
            env2[v] = t
        lets = ""
        if target is not None:
            lets, env2 = self.bind(target, E([], rv, cand.ret), env2, node)
        body = "(match %s with MErr %s %s => MErr %s %s | MOk %s %s => let '%s := %s in %s%s end)" % (
            app, ev, stv, ev, stv, rv, stv, self.st_tuple(), stv, lets, nxt(env2))
        return self.swrap(sum((e.pre for e in es), []), body)

    def _self_stmt(self, cand, target, call, env, nxt, node):
        """[target =] self.m(args): run the translated method `cand.coq` of the same object on the current state."""
        if cand.stateprim:
            return self._stprim_stmt(cand, target, call, env, nxt, node)
        fs = [f for f in self.mod.funs if f.qual == cand.selfmethod and f.coq == cand.coq]
        if len(fs) != 1 or not self.method:
            _bad("%s: no translated method %s (%s) in this module / the caller is not in method mode"
                 % (ast.unparse(call.func), cand.selfmethod, cand.coq), node)
        f = fs[0]
        # (a @staticmethod reached through self — `self._parse_error(msg, strict)` — has no `self` parameter to skip;
        #  translated in method mode it threads the same state, e.g. a global list of warnings)
        static = any(isinstance(d_, ast.Name) and d_.id == "staticmethod"
                     for d_ in find_def(self.mod.tree_, f.qual).decorator_list)
        if f.state != self.fun.state or f.ghost != self.fun.ghost or not (f.skip_first or static) or f.generator:
            _bad("%s must be translated with the same ghost parameters and state as %s" % (f.qual, self.fun.qual), node)
        if [t for _, t in f.params] != list(cand.args) or f.ret != cand.ret:
            _bad("the rendering of %s does not have the parameter/return types of %s" % (ast.unparse(call.func), f.qual), node)
        if len(call.args) > len(f.params) or any(isinstance(a, ast.Starred) for a in call.args) \
                or any(k_.arg is None for k_ in call.keywords):
            _bad("arguments of %s" % ast.unparse(call), node)
        # keyword arguments: by parameter name, after the positional ones and IN PARAMETER ORDER (then the textual
        # order, which is Python's evaluation order, is the order of the slots)
        pnames = [p for p, _ in f.params]
        slots = dict(enumerate(call.args))
        last = len(call.args) - 1
        for k_ in call.keywords:
            if k_.arg not in pnames or pnames.index(k_.arg) <= last:
                _bad("keyword argument %r of %s: unknown, given twice, or out of parameter order" % (k_.arg, ast.unparse(call)), node)
            last = pnames.index(k_.arg)
            slots[last] = k_.value
        # arguments left out: the defaults as the callee's `def` has them NOW (constants: evaluated in an empty scope)
        dn = find_def(self.mod.tree_, f.qual).args
        dflt = dict(zip([x.arg for x in dn.args][len(dn.args) - len(dn.defaults):], dn.defaults))
        es, texts = [], []
        for i_, (p, ty) in enumerate(f.params):
            if i_ in slots:
                e_ = self.expr(slots[i_], env, ty)
                es.append(e_)
                texts.append(coerce(e_.text, e_.ty, ty, node))
                continue
            if p not in dflt:
                _bad("%s: parameter %r is not given and has no default" % (ast.unparse(call), p), node)
            d = self.pure(dflt[p], {}, ty)
            texts.append(coerce(d.text, d.ty, ty, node))
        fl = []
        if f.rec_group:     # a method of a recursion group: the decreased fuel inside the group, its entry fuel outside
            if self.fun.rec_group != f.rec_group and not f.rec_fuel:
                _bad("%s belongs to the recursion group %r and has no rec_fuel for callers outside it" % (f.qual, f.rec_group), node)
            fl = ["fuel" if self.fun.rec_group == f.rec_group else "(%s)" % f.rec_fuel]
        app = " ".join([f.coq] + fl + [cname(g) for g, _ in self.fun.ghost] + [cname(v) for _, v, _ in self.fun.state] + texts)
        rv, stv, ev = self.tmp(), self.tmp(), self.tmp()
        env2 = dict(env)
        for _, v, t in self.fun.state:
            env2[v] = t
        lets = ""
        if target is not None:
            lets, env2 = self.bind(target, E([], rv, cand.ret), env2, node)
        body = "(match %s with MErr %s %s => MErr %s %s | MOk %s %s => let '%s := %s in %s%s end)" % (
            app, ev, stv, ev, stv, rv, stv, self.st_tuple(), stv, lets, nxt(env2))
        return self.swrap(sum((e.pre for e in es), []), body)

    def _mutating(self, call, env):
        """`recv.m(args)` where the spec declares "<type>.m" as a receiver-mutating method -> (cand, recv var, args)."""
        if not (isinstance(call, ast.Call) and isinstance(call.func, ast.Attribute) and not call.keywords):
            return None
        rv = call.func.value
        if isinstance(rv, ast.Name) and rv.id in env:
            var = rv.id
        elif isinstance(rv, ast.Attribute) and ast.unparse(rv) in self.stattr:
            var = self.stattr[ast.unparse(rv)]
        else:
            return None
        ty = env[var]
        opt = False
        if isinstance(ty, tuple) and ty[0] == "option" and ("<option>.%s" % call.func.attr) not in self.mod.calls:
            ty, opt = ty[1], True
        tname = ty if isinstance(ty, str) else (ty[1] if ty[0] == "coq" else ty[0])
        alts = self.mod.calls.get("<%s>.%s" % (tname, call.func.attr))
        if alts is None:
            return None
        alts = alts if isinstance(alts, (list, tuple)) else [alts]
        fits = [cand for cand in alts if cand.mutates and len(cand.args) == len(call.args) + 1]
        if len(fits) > 1:
            # overloads (e.g. one rendering per asserted ("literal", …) argument): the first whose arguments translate
            for cand in fits:
                saved_tmp = self.ntmp
                try:
                    for a, w in zip(call.args, cand.args[1:]):
                        e = self._arg(a, env, w)
                        coerce(e.text, e.ty, w, call)
                    return cand, var, call.args, opt
                except ExtractError:
                    pass
                finally:
                    self.ntmp = saved_tmp
        for cand in fits:       # (a single rendering, or none fits: _mut_stmt reports why)
            return cand, var, call.args, opt
        return None

    def _mut_stmt(self, mc, target, env, nxt, node):
        cand, var, argn, opt = mc
        pre = []
        rtext, rty = cname(var), env[var]
        if opt:   # possibly-None receiver: None raises AttributeError (rendered OtherError) before the arguments are evaluated
            u = self.tmp()
            pre.append((u, "tr_unwrap %s" % rtext))
            rtext, rty = u, rty[1]
        es = [self._arg(a, env, w) for a, w in zip(argn, cand.args[1:])]
        texts = [coerce(rtext, rty, cand.args[0], node)] + \
                [coerce(e.text, e.ty, w, node) for e, w in zip(es, cand.args[1:])]
        pre = pre + sum((e.pre for e in es), [])
        if self._heap_rw():     # (the receiver is read BEFORE the arguments are evaluated, but rendered after their prelude)
            self._no_stm(pre, node, "the arguments of a receiver-mutating call")
        app = "%s %s" % (cand.coq, " ".join(texts))
        rv, rr = self.tmp(), self.tmp()
        env2 = dict(env)
        env2[var] = self.declared(var, node)
        for a_ in argn:      # an owned object passed to the receiver (L.append(obj)): the container holds it now
            if isinstance(a_, ast.Name) and a_.id != var:
                env2 = self._consume(a_, env2, node, False)
        lets = "let %s := %s in " % (cname(var), coerce(rr, cand.args[0], self.declared(var, node), node))
        if target is not None:
            tty = self.declared(target, node)
            env2[target] = tty
            lets += "let %s := %s in " % (cname(target), coerce(rv, cand.ret, tty, node))
        if cand.monadic:
            pr = self.tmp()
            return self.swrap(pre + [(pr, app)], "(let '(%s, %s) := %s in %s%s)" % (rv, rr, pr, lets, nxt(env2)))
        return self.swrap(pre, "(let '(%s, %s) := %s in %s%s)" % (rv, rr, app, lets, nxt(env2)))

    def _item_op_stmt(self, base, key, meth, argn, env, nxt, node):
        """`o[k].m(a…)` / `o[k] |= e` (meth "__ior__") as a statement, for o a LOCAL VARIABLE of an opaque container type T
        whose elements are mutable values that have no name of their own (a dict of sets rendered by value): the spec's
        receiver-mutating primitive "<T>.[].m" : o -> k -> a… -> (unit * o') [result of it] — the element under k is looked
        up (the primitive's KeyError), changed in place, and o holds the changed element from then on.  Faithful only
        while no element of o has a second name: the spec author's claim, made by choosing that type (and supported by
        typing what may be STORED into such a container as a freshly made value).  Python evaluates o, k, o[k], then
        the arguments: these must be pure, so that the KeyError cannot overtake an exception of theirs.
        None if the statement is not of that shape (the caller goes on / fails closed)."""
        if not (isinstance(base, ast.Name) and base.id in env and isinstance(env[base.id], tuple) and env[base.id][0] == "coq"):
            return None
        obj, oty = base.id, env[base.id]
        cand = self.mod.calls.get("<%s>.[].%s" % (oty[1], meth))
        if not (isinstance(cand, Call) and cand.mutates and not cand.substate and len(cand.args) == 2 + len(argn)
                and cand.ret == "unit"):
            return None
        kx = self.expr(key, env, cand.args[1])
        if self._heap_rw():
            self._no_stm(kx.pre, node, "the key of an operation on an item")
        es = [self.pure(a, env, w) for a, w in zip(argn, cand.args[2:])]
        texts = [coerce(cname(obj), oty, cand.args[0], node), coerce(kx.text, kx.ty, cand.args[1], node)] + \
                [coerce(e.text, e.ty, w, node) for e, w in zip(es, cand.args[2:])]
        app = "%s %s" % (cand.coq, " ".join(texts))
        rv, rr = self.tmp(), self.tmp()
        body = "let %s := %s in %s" % (cname(obj), coerce(rr, cand.args[0], self.declared(obj, node), node), nxt(env))
        if cand.monadic:
            pr = self.tmp()
            return self.swrap(kx.pre + [(pr, app)], "(let '(%s, %s) := %s in %s)" % (rv, rr, pr, body))
        return self.swrap(kx.pre, "(let '(%s, %s) := %s in %s)" % (rv, rr, app, body))

    def _mutating_item(self, call, env):
        """`L[i].m(args)` where L is a list variable / state attribute whose elements have the opaque type T and the spec
        declares "<T>.m" as a receiver-mutating method -> (cand, list variable, index node, argument nodes)."""
        if not (isinstance(call, ast.Call) and isinstance(call.func, ast.Attribute) and not call.keywords
                and isinstance(call.func.value, ast.Subscript) and not isinstance(call.func.value.slice, ast.Slice)):
            return None
        base = call.func.value.value
        if isinstance(base, ast.Name) and base.id in env:
            var = base.id
        elif isinstance(base, ast.Attribute) and ast.unparse(base) in self.stattr:
            var = self.stattr[ast.unparse(base)]
        else:
            return None
        ty = env[var]
        if not (isinstance(ty, tuple) and ty[0] == "list" and isinstance(ty[1], tuple) and ty[1][0] == "coq"):
            return None
        alts = self.mod.calls.get("<%s>.%s" % (ty[1][1], call.func.attr))
        if alts is None:
            return None
        alts = alts if isinstance(alts, (list, tuple)) else [alts]
        for cand in alts:
            if cand.mutates and len(cand.args) == len(call.args) + 1:
                return cand, var, call.func.value.slice, call.args
        return None

    def _mut_item_stmt(self, mi, env, nxt, node):
        """L[i].m(args) as a statement: the element is read (IndexError), the method runs on it, and — the list holds
        the only name of that object (owned objects, _consume) — the changed element is the element of L from then on.
        Python evaluates L[i], then the arguments, then calls."""
        cand, var, idxn, argn = mi
        ety = env[var][1]
        idx = self.expr(idxn, env, "Z")
        if idx.ty != "Z":
            _bad("index of type %r" % (idx.ty,), node)
        el = self.tmp()
        pre = idx.pre + [(el, "tr_index %s %s" % (cname(var), idx.text))]
        es = [self._arg(a, env, w) for a, w in zip(argn, cand.args[1:])]
        texts = [coerce(el, ety, cand.args[0], node)] + [coerce(e.text, e.ty, w, node) for e, w in zip(es, cand.args[1:])]
        pre = pre + sum((e.pre for e in es), [])
        app = "%s %s" % (cand.coq, " ".join(texts))
        rv, rr, nl = self.tmp(), self.tmp(), self.tmp()
        env2 = dict(env)
        env2[var] = self.declared(var, node)
        back = self.swrap([(nl, "tr_set_index %s %s %s" % (cname(var), idx.text, coerce(rr, cand.args[0], ety, node)))],
                          "(let %s := %s in %s)" % (cname(var), coerce(nl, env[var], self.declared(var, node), node), nxt(env2)))
        if cand.monadic:
            pr = self.tmp()
            return self.swrap(pre + [(pr, app)], "(let '(%s, %s) := %s in %s)" % (rv, rr, pr, back))
        return self.swrap(pre, "(let '(%s, %s) := %s in %s)" % (rv, rr, app, back))

    # join points -------------------------------------------------------------
    def join(self, env, assigned, k_after, narrowed=None, fresh=(), gone=()):
        """Returns (prefix defining the join function, call(env_branch) -> text).
        narrowed: {variable: type} overriding the declared type (opt-in flow typing, see Fun.narrow).
        fresh: variables not defined before that every incoming edge defines (opt-in, see Fun.join_defines).
        gone: variables that some incoming edge has handed over to a container (_consume): undefined afterwards."""
        vs = [v for v in self.order if v in assigned and (v in env or v in fresh) and v not in gone]
        # variables assigned in the branches but not defined before are NOT visible afterwards (fail closed on use)
        self.njoin += 1
        name = "k%d_" % self.njoin
        env_after = {v: t for v, t in env.items() if v not in gone}
        pty = {v: (narrowed or {}).get(v, self.declared(v)) for v in vs}
        for v in vs:
            env_after[v] = pty[v]
        body = k_after(env_after)
        if not vs:
            return "let %s := (fun _ : unit => %s) in " % (name, body), (lambda e: "%s tt" % name)
        params = " ".join("(%s : %s)" % (cname(v), ty_coq(pty[v])) for v in vs)

        def call(e):
            for v in vs:
                if v not in e:      # `del v` on one path into the join
                    _bad("variable %r is not defined on every path into a join point" % v)
            return "%s %s" % (name, " ".join(coerce(cname(v), e[v], pty[v]) for v in vs))
        return "let %s := (fun %s => %s) in " % (name, params, body), call

    def _if(self, s, rest, env, k, ctx):
        after = lambda env2: self.block(rest, env2, k, ctx)   # noqa: E731
        ft_body, ft_else = self.falls_through(s.body), self.falls_through(s.orelse)
        nar = self._narrow(s.test, env)
        if ft_body and ft_else and (rest or True):
            asg = self.assigned(s.body) + self.assigned(s.orelse)
            narrowed = None
            if self.fun.narrow:
                if nar:
                    e_some = dict(env)
                    e_some[nar[0]] = env[nar[0]][1]
                    brs = [(s.body, env), (s.orelse, e_some)] if nar[1] else [(s.body, e_some), (s.orelse, env)]
                else:
                    brs = [(s.body, env), (s.orelse, env)]
                narrowed = self._narrowed(self._probe(brs, ctx), asg)
            fresh = ()
            if self.fun.join_defines and any(v not in env and v in self.decl for v in asg):
                if nar:
                    e_some = dict(env)
                    e_some[nar[0]] = env[nar[0]][1]
                    brs = [(s.body, env), (s.orelse, e_some)] if nar[1] else [(s.body, e_some), (s.orelse, env)]
                else:
                    brs = [(s.body, env), (s.orelse, env)]
                ends = self._probe(brs, ctx)      # the environments at every normal end of either branch
                fresh = tuple(v for v in asg if v not in env and v in self.decl and ends and all(v in e for e in ends))
            gone = ()
            if any(self._owned_type(t_) for t_ in self.decl.values()):
                # (functions with owned objects) a name that some branch hands over to a container and does not
                # rebind is undefined after the if — and not a parameter of the join point
                if nar:
                    e_some = dict(env)
                    e_some[nar[0]] = env[nar[0]][1]
                    brs = [(s.body, env), (s.orelse, e_some)] if nar[1] else [(s.body, e_some), (s.orelse, env)]
                else:
                    brs = [(s.body, env), (s.orelse, env)]
                ends = self._probe(brs, ctx)
                gone = tuple(v for v in asg if v in env and any(v not in e for e in ends))
            pfx, call = self.join(env, asg, after, narrowed, fresh, gone)
            kk = call
        else:
            pfx, kk = "", after
        # a loop in a branch that ends in the join point: what follows the loop (the call of the let-bound join
        # function) is not in scope inside the loop's top-level Fixpoint — it is passed as a continuation, as for
        # a loop nested in a loop (_nested_exit)
        ctx_b = dict(ctx, injoin=True) if pfx else ctx
        if nar:
            name, none_first = nar
            env_some = dict(env)
            env_some[name] = env[name][1]
            b_none, b_some = (s.body, s.orelse) if none_first else (s.orelse, s.body)
            t_none = self.block(b_none, env, kk, ctx_b)
            t_some = self.block(b_some, env_some, kk, ctx_b)
            return "(%smatch %s with None => %s | Some %s => %s end)" % (
                pfx, self._narrow_scrut(s.test, name), t_none, cname(name), t_some)
        c = self.cond(s.test, env)
        t_then = self.block(s.body, env, kk, ctx_b)
        t_else = self.block(s.orelse, env, kk, ctx_b)
        return self.swrap(c.pre, "(%sif %s then %s else %s)" % (pfx, c.text, t_then, t_else))

    def _loop_sig(self, env, loop=None):
        vs = self.vars_of(env)
        sty = {v: self.declared(v) for v in vs}
        if self.fun.narrow and loop is not None:
            # flow typing (opt-in): a variable that the loop does not assign keeps the type it has on entry
            asg = set(self.assigned([loop]))
            sty.update(self._narrowed([env], [v for v in vs if v not in asg]))
        params = " ".join("(%s : %s)" % (cname(v), ty_coq(sty[v])) for v in vs)

        def args(e):
            for v in vs:
                if v not in e:
                    _bad("variable %r undefined on a loop back-edge" % v)
            return " ".join(coerce(cname(v), e[v], sty[v]) for v in vs)
        env_in = dict(sty)
        return vs, params, args, env_in

    def _nested_exit(self, idx, vs, params, args, env_in, after, ctx):
        """A loop inside the body of another loop: what follows it runs on in the enclosing loop (its recursive
        call, its iterator), so it cannot be inlined into the inner loop's top-level Fixpoint.  That Fixpoint takes
        it as a continuation over the loop state instead (`kxN_`), passed as a lambda where the loop is entered.
        Returns (extra parameter text, text passed on a recursive call, exit(env) -> text, thunk: the lambda text).
        For a loop that is not nested everything is as before: ("", "", after, "")."""
        if not ctx.get("cont") and not ctx.get("injoin"):
            return "", "", after, (lambda: "")
        kn = "kx%d_" % idx
        if not vs:
            return (" (%s : unit -> %s)" % (kn, self.rtype()), " " + kn, (lambda e: "%s tt" % kn),
                    (lambda: " (fun _ : unit => %s)" % after(env_in)))
        kty = " -> ".join(ty_coq(env_in[v]) for v in vs)     # = the declared types unless Fun.narrow
        return (" (%s : %s -> %s)" % (kn, kty, self.rtype()), " " + kn, (lambda e: "%s %s" % (kn, args(e))),
                (lambda: " (fun %s => %s)" % (params, after(env_in))))

    def _while(self, s, rest, env, k, ctx):
        if s.orelse:
            _bad("while/else", s)
        self.nloop += 1
        idx = self.nloop
        name = "%s_loop%d" % (self.fun.coq, idx)
        if idx not in self.fun.fuel:
            _bad("no fuel expression for loop %d of %s" % (idx, self.fun.qual), s)
        vs, params, args, env_in = self._loop_sig(env, s)
        after = lambda env2: self.block(rest, env2, k, ctx)   # noqa: E731
        kxpar, kxrec, after_in, kxval = self._nested_exit(idx, vs, params, args, env_in, after, ctx)
        uses_break = any(isinstance(n, ast.Break) for n in ast.walk(s))
        if uses_break:
            kpfx, kcall = self.join(env_in, vs, after_in, {v: env_in[v] for v in vs if env_in[v] != self.declared(v)})
        else:
            kpfx, kcall = "", after_in
        ctx2 = dict(ctx)
        ctx2["cont"] = lambda e: "%s fuel%s %s" % (name, kxrec, args(e))
        ctx2["brk"] = kcall
        nar = self._narrow(s.test, env_in) if self._heap() is not None else None
        if nar is not None and self._ref_class(env_in[nar[0]]) is not None:
            # HEAP MODE: `while x:` / `while x is not None:` on an optional reference held in a variable: x is a reference
            # in the body (on the back-edge it is what the body has assigned, at its declared type)
            name_, none_first = nar
            if none_first:
                _bad("while on `not x` / `x is None` for a reference", s)
            env_some = dict(env_in)
            env_some[name_] = env_in[name_][1]
            body = self.block(s.body, env_some, ctx2["cont"], ctx2)
            text = ("Fixpoint %s (fuel : nat)%s %s {struct fuel} : %s :=\n  match fuel with\n  | O => %s\n"
                    "  | S fuel =>\n    %s(match %s with None => %s | Some %s => %s end)\n  end.\n" % (
                        name, kxpar, params, self.rtype(), self.err("OutOfFuel"), kpfx,
                        self._narrow_scrut(s.test, name_), kcall(env_in), cname(name_), body))
            self.defs.append(text)
            return "(%s (%s)%s %s)" % (name, self.fun.fuel[idx], kxval(), args(env))
        c = self.cond(s.test, env_in)
        body = self.block(s.body, env_in, ctx2["cont"], ctx2)
        text = ("Fixpoint %s (fuel : nat)%s %s {struct fuel} : %s :=\n  match fuel with\n  | O => %s\n"
                "  | S fuel =>\n    %s%s\n  end.\n" % (
                    name, kxpar, params, self.rtype(), self.err("OutOfFuel"), kpfx,
                    self.swrap(c.pre, "(if %s then %s else %s)" % (c.text, body, kcall(env_in)))))
        self.defs.append(text)
        return "(%s (%s)%s %s)" % (name, self.fun.fuel[idx], kxval(), args(env))

    def _enum_shared(self, s, env):
        """`for i, x in enumerate(IT[, start=K])` where IT is a SHARED iterator variable (("iter", T)) that the body
        may advance too: the enumerate object only counts what it takes from IT, one item per iteration.  Rendered as
            enumN__ = K;  for x in IT: i = enumN__; enumN__ = enumN__ + 1; <body>
        (the counter is hidden state of the enumerate object: a fresh variable).  None if `s` is not of that shape."""
        it = s.iter
        if not (isinstance(it, ast.Call) and ast.unparse(it.func) == "enumerate" and "enumerate" not in self.mod.calls
                and len(it.args) == 1 and isinstance(it.args[0], ast.Name) and it.args[0].id in env
                and isinstance(env[it.args[0].id], tuple) and env[it.args[0].id][0] == "iter"
                and len(it.keywords) <= 1 and all(kw.arg == "start" for kw in it.keywords)
                and isinstance(s.target, ast.Tuple) and len(s.target.elts) == 2
                and all(isinstance(x, ast.Name) for x in s.target.elts)):
            return None
        for m in ast.walk(ast.Module(body=list(s.body) + list(s.orelse), type_ignores=[])):
            # the enumerate object keeps the iterator OBJECT: rebinding the variable in the body would not redirect it
            if isinstance(m, ast.Name) and m.id == it.args[0].id and not isinstance(m.ctx, ast.Load):
                _bad("the loop body rebinds %r, the iterator that enumerate() holds" % m.id, s)
        cnt = "enum%d__" % (self.nloop + 1)
        mine = self.__dict__.setdefault("_enum_cnts", set())     # (a dry run, _probe, may come here a second time)
        if cnt not in mine:
            if cnt in self.decl:
                _bad("name clash with the enumerate counter %s" % cnt, s)
            mine.add(cnt)
            self.decl[cnt] = "Z"
            self.order.append(cnt)
        start = it.keywords[0].value if it.keywords else ast.Constant(value=0)
        ld = lambda: ast.Name(id=cnt, ctx=ast.Load())    # noqa: E731
        init = ast.Assign(targets=[ast.Name(id=cnt, ctx=ast.Store())], value=start)
        head = [ast.Assign(targets=[ast.Name(id=s.target.elts[0].id, ctx=ast.Store())], value=ld()),
                ast.Assign(targets=[ast.Name(id=cnt, ctx=ast.Store())],
                           value=ast.BinOp(left=ld(), op=ast.Add(), right=ast.Constant(value=1)))]
        loop = ast.For(target=s.target.elts[1], iter=it.args[0], body=head + list(s.body), orelse=s.orelse)
        out = [ast.copy_location(init, s), ast.copy_location(loop, s)]
        for x in out:
            for m in ast.walk(x):
                if not hasattr(m, "lineno"):
                    ast.copy_location(m, s)
            ast.fix_missing_locations(x)
        return out

    def _for(self, s, rest, env, k, ctx):
        des = self._enum_shared(s, env)
        if des is not None:
            return self.block(des + list(rest), env, k, ctx)
        self.nloop += 1
        idx = self.nloop
        name = "%s_loop%d" % (self.fun.coq, idx)
        after = lambda env2: self.block(rest, env2, k, ctx)   # noqa: E731
        shared = isinstance(s.iter, ast.Name) and s.iter.id in env and isinstance(env[s.iter.id], tuple) \
            and env[s.iter.id][0] == "iter"
        vs, params, args, env_in = self._loop_sig(env, s)
        if shared:
            ety = env[s.iter.id][1]
        else:
            # the iterable is evaluated once, eagerly: only faithful if the body does not change what is
            # being iterated over — except `N[i] = v` at the current index of `for i, x in enumerate(N)`
            # (`X.attr` that the spec renders as a CONSTANT, Module.consts — a class-level table reached through self —
            #  does not depend on X's state: that occurrence of X does not count)
            in_const = {id(m.value) for m in ast.walk(s.iter) if isinstance(m, ast.Attribute)
                        and isinstance(m.value, ast.Name) and ast.unparse(m) in self.mod.consts}
            names = {m.id for m in ast.walk(s.iter) if isinstance(m, ast.Name) and id(m) not in in_const}
            # `X.m(..)` that the spec renders BY ITS SOURCE TEXT "X.m" as a function that does not take X (a
            # classmethod / static helper reached through self): its value does not depend on X's state
            recv_only = {m.func.value.id for m in ast.walk(s.iter)
                         if isinstance(m, ast.Call) and isinstance(m.func, ast.Attribute)
                         and isinstance(m.func.value, ast.Name) and ast.unparse(m.func) in self.mod.calls}
            for nm in recv_only:
                uses = sum(1 for m in ast.walk(s.iter) if isinstance(m, ast.Name) and m.id == nm)
                asrecv = sum(1 for m in ast.walk(s.iter) if isinstance(m, ast.Call) and isinstance(m.func, ast.Attribute)
                             and isinstance(m.func.value, ast.Name) and m.func.value.id == nm
                             and ast.unparse(m.func) in self.mod.calls)
                if uses == asrecv:
                    names.discard(nm)
            if getattr(self.fun, "alias_state", None):
                # (functions that opt in to alias_state) a state attribute in the iterable: its state variable counts too
                names |= {self.stattr[ast.unparse(m)] for m in ast.walk(s.iter)
                          if isinstance(m, ast.Attribute) and ast.unparse(m) in self.stattr}
            for nm in names & set(self.assigned(s.body)):
                ok = (isinstance(s.iter, ast.Call) and ast.unparse(s.iter.func) == "enumerate" and len(s.iter.args) == 1
                      and isinstance(s.iter.args[0], ast.Name) and s.iter.args[0].id == nm
                      and isinstance(s.target, ast.Tuple) and isinstance(s.target.elts[0], ast.Name))
                if ok:
                    idxn = s.target.elts[0].id
                    # the index variable must not be rebound in the body (its use as `N[i]` is a read)
                    if any(isinstance(q, ast.Name) and q.id == idxn and not isinstance(q.ctx, ast.Load)
                           for q in ast.walk(ast.Module(body=s.body, type_ignores=[]))):
                        ok = False
                    for m in ast.walk(ast.Module(body=s.body, type_ignores=[])):
                        if isinstance(m, (ast.Assign, ast.AugAssign)):
                            for t in (m.targets if isinstance(m, ast.Assign) else [m.target]):
                                for q in ast.walk(t):
                                    if isinstance(q, ast.Name) and q.id == nm:
                                        if not (isinstance(t, ast.Subscript) and isinstance(t.value, ast.Name) and t.value.id == nm
                                                and isinstance(t.slice, ast.Name) and t.slice.id == idxn):
                                            ok = False
                        if isinstance(m, ast.Call) and isinstance(m.func, ast.Attribute) and isinstance(m.func.value, ast.Name) \
                                and m.func.value.id == nm and m.func.attr in ("append", "pop", "extend", "insert", "write"):
                            ok = False
                if not ok and self._mut_then_break(s, nm):
                    ok = True       # changed, then `break` at once: the iterator is never asked again
                if not ok:
                    _bad("the loop body changes %r, which the loop iterates over" % nm, s)
            it = self._iter_monadic(self.expr(s.iter, env), s)
            if isinstance(it.ty, tuple) and it.ty[0] == "coq":
                # iteration over an opaque object: the spec's primitive "<type>.__iter__" gives the items in the order
                # in which the object yields them (pure, one argument, a list) — evaluated once, like any iterable here
                g = self.mod.calls.get("<%s>.__iter__" % it.ty[1])
                if not (isinstance(g, Call) and len(g.args) == 1 and not g.monadic and not g.mutates
                        and isinstance(g.ret, tuple) and g.ret[0] == "list"):
                    _bad("iteration over %r needs a pure \"<%s>.__iter__\" returning a list" % (it.ty, it.ty[1]), s)
                it = E(it.pre, "(%s %s)" % (g.coq, coerce(it.text, it.ty, g.args[0], s)), g.ret)
            ety = self._elem_ty(it.ty, s)
        # target
        env_body = dict(env_in)
        if isinstance(s.target, ast.Name):
            h = self.tmp()
            tty = self.declared(s.target.id, s)
            env_body[s.target.id] = tty
            bind = "let %s := %s in " % (cname(s.target.id), coerce(h, ety, tty, s))
            pat = h
        elif isinstance(s.target, ast.Tuple) and all(isinstance(x, ast.Name) for x in s.target.elts) \
                and isinstance(ety, tuple) and ety[0] == "tuple" and len(ety) - 1 == len(s.target.elts):
            hs, bind = [], ""
            for x, ty in zip(s.target.elts, ety[1:]):
                h = self.tmp()
                hs.append(h)
                dty = self.declared(x.id, s)
                env_body[x.id] = dty
                bind += "let %s := %s in " % (cname(x.id), coerce(h, ty, dty, s))
            pat = "(" + ", ".join(hs) + ")"
        else:
            _bad("for target", s)
        # the loop variable(s) become part of the environment of later iterations/after the loop only if defined before
        uses_break = any(isinstance(n, ast.Break) for n in ast.walk(s))
        kxpar, kxrec, after_in, kxval = self._nested_exit(idx, vs, params, args, env_in, after, ctx)
        # the else-block of a NESTED loop is rendered inside the inner Fixpoint: a continue/break there would address
        # the enclosing loop, which is not in scope — fail closed (ctx without cont/brk)
        ctx_else = ctx if not kxpar else {c: v for c, v in ctx.items() if c not in ("cont", "brk")}
        k_else = lambda e: self.block(s.orelse, e, after_in, ctx_else)   # noqa: E731  (exhausted: else-block, then what follows)
        if uses_break:
            # (Fun.join_defines, opt-in) `for …: if c: x = …; break` / `else: raise …`: the code after the loop is reached
            # through `break` only, so a declared variable that the body binds before EVERY break is defined there (it is
            # handed to the exit continuation; a break path without it fails closed in join; it is no loop state)
            brk_fresh = []
            if self.fun.join_defines and s.orelse and isinstance(s.orelse[-1], (ast.Raise, ast.Return)):
                used_after = {m.id for r_ in rest for m in ast.walk(r_) if isinstance(m, ast.Name)}
                brk_fresh = [v for v in self.assigned(s.body) if v not in env_in and v in self.decl and v in used_after]
            kpfx, kbrk = self.join(env_in, list(vs) + brk_fresh, after_in,
                                   {v: env_in[v] for v in vs if env_in[v] != self.declared(v)}, fresh=brk_fresh)
            k_exh = lambda e: self.block(s.orelse, e, kbrk, ctx_else)   # noqa: E731
        else:
            kpfx, kbrk, k_exh = "", after_in, k_else
        ctx2 = dict(ctx)
        ctx2["brk"] = kbrk
        if shared:
            if idx not in self.fun.fuel:
                _bad("no fuel expression for loop %d of %s (loop over a shared iterator)" % (idx, self.fun.qual), s)
            itn = cname(s.iter.id)
            ctx2["cont"] = lambda e: "%s fuel%s %s" % (name, kxrec, args(e))
            body = self.block(s.body, env_body, ctx2["cont"], ctx2)
            text = ("Fixpoint %s (fuel : nat)%s %s {struct fuel} : %s :=\n  match fuel with\n  | O => %s\n"
                    "  | S fuel =>\n    %smatch %s with\n    | [] => %s\n    | %s :: %s => %s%s\n    end\n  end.\n" % (
                        name, kxpar, params, self.rtype(), self.err("OutOfFuel"), kpfx, itn, k_exh(env_in), pat, itn, bind, body))
            self.defs.append(text)
            return "(%s (%s)%s %s)" % (name, self.fun.fuel[idx], kxval(), args(env))
        itv = "it%d_" % idx
        ctx2["cont"] = lambda e: "%s %s%s %s" % (name, itv, kxrec, args(e))
        body = self.block(s.body, env_body, ctx2["cont"], ctx2)
        text = ("Fixpoint %s (%s : list %s)%s %s {struct %s} : %s :=\n  %smatch %s with\n  | [] => %s\n  | %s :: %s => %s%s\n  end.\n" % (
            name, itv, ty_coq(ety), kxpar, params, itv, self.rtype(), kpfx, itv, k_exh(env_in), pat, itv, bind, body))
        self.defs.append(text)
        return self.swrap(it.pre, "(%s %s%s %s)" % (name, it.text, kxval(), args(env)))

    def _alias_after_mutations(self, stmt, pair):
        """`x = y` (stmt) between list names of which one is changed in place somewhere: harmless when every such
        change happens BEFORE the statement — neither the statement nor any of the changes stands inside a loop (then
        the textual order is the execution order) and every change ends on an earlier line."""
        in_loop = set()
        for lp in ast.walk(self.node):
            if isinstance(lp, (ast.For, ast.While, ast.FunctionDef, ast.Lambda, ast.ListComp, ast.GeneratorExp)) \
                    and lp is not self.node:
                in_loop |= {id(q) for q in ast.walk(lp) if q is not lp}
        if id(stmt) in in_loop:
            return False
        for m in ast.walk(self.node):
            site = None
            if isinstance(m, ast.Call) and isinstance(m.func, ast.Attribute) and isinstance(m.func.value, ast.Name) \
                    and m.func.value.id in pair \
                    and m.func.attr in ("append", "pop", "extend", "insert", "write", "sort", "reverse", "remove", "clear"):
                site = m
            if isinstance(m, (ast.Assign, ast.AugAssign)):
                for t in (m.targets if isinstance(m, ast.Assign) else [m.target]):
                    if isinstance(t, ast.Subscript) and isinstance(t.value, ast.Name) and t.value.id in pair:
                        site = m
            if site is not None and (id(site) in in_loop or getattr(site, "end_lineno", 10 ** 9) >= stmt.lineno):
                return False
        return True

    # `*args, **kwargs` that are only handed on -------------------------------------------------------------------
    def _fwd_names(self):
        a = self.node.args
        return [x.arg for x in (a.vararg, a.kwarg) if x is not None]

    def _forwards_only(self):
        """Fun.forwards_varargs (opt-in) = the source text F of a callee: the function's own `*args` / `**kwargs` are
        OPAQUE — each name occurs exactly once in the body, as `*args` / `**kwargs` at the end of the arguments of ONE call
        `F(.., *args, **kwargs)`, which the spec renders by a primitive on the object's state (Call.stateprim) that stands
        for F's effect whatever arguments were handed on (_strip_forwarded).  Anything else fails closed."""
        fw = getattr(self.fun, "forwards_varargs", None)
        if not fw:
            return False
        a = self.node.args
        sites = [m for m in ast.walk(self.node) if isinstance(m, ast.Call) and ast.unparse(m.func) == fw]
        if len(sites) != 1:
            return False
        c = sites[0]
        ok_star = (a.vararg is None) or (c.args and isinstance(c.args[-1], ast.Starred)
                                          and isinstance(c.args[-1].value, ast.Name) and c.args[-1].value.id == a.vararg.arg)
        ok_kw = (a.kwarg is None) or (c.keywords and c.keywords[-1].arg is None
                                      and isinstance(c.keywords[-1].value, ast.Name) and c.keywords[-1].value.id == a.kwarg.arg)
        uses = [m for m in ast.walk(self.node) if isinstance(m, ast.Name) and m.id in self._fwd_names()]
        return bool(ok_star and ok_kw and len(uses) == len(self._fwd_names()))

    def _strip_forwarded(self, call):
        """The call F(.., *args, **kwargs) of _forwards_only without the forwarded `*args` / `**kwargs`."""
        if not (getattr(self.fun, "forwards_varargs", None) and self._fwd_names()
                and ast.unparse(call.func) == self.fun.forwards_varargs and self._forwards_only()):
            return call
        a = self.node.args
        args, kws = list(call.args), list(call.keywords)
        if a.vararg is not None:
            args.pop()
        if a.kwarg is not None:
            kws.pop()
        return ast.copy_location(ast.Call(func=call.func, args=args, keywords=kws), call)

    # ------------------------------------------------------------------
    def translate(self):
        a = self.node.args
        # keyword-only parameters: accepted when each has a default and is a declared LOCAL of the spec (never a spec
        # parameter): the translation is the function called WITHOUT them — they are bound to their defaults below
        kwonly_ok = bool(a.kwonlyargs) and all(d_ is not None for d_ in a.kw_defaults) \
            and all(x.arg in self.fun.locals for x in a.kwonlyargs)
        # … or when ALL of them are spec parameters, listed after the positional ones in the order of the `def` (callers
        # give them by keyword: Call.kw)
        kwonly_params = bool(a.kwonlyargs) and not kwonly_ok and not a.vararg and not a.kwarg \
            and [p for p, _ in self.fun.params][-len(a.kwonlyargs):] == [x.arg for x in a.kwonlyargs]
        if kwonly_params:
            kwonly_ok = True
        if (a.kwonlyargs and not kwonly_ok) or a.posonlyargs or ((a.vararg or a.kwarg) and not self._forwards_only()):
            _bad("unsupported parameter kinds in %s" % self.fun.qual, self.node)
        # aliasing: `x = y` between mutable lists of which one is later mutated in place cannot be rendered by values
        mutated = set()
        for m in ast.walk(self.node):
            if isinstance(m, ast.Call) and isinstance(m.func, ast.Attribute) and isinstance(m.func.value, ast.Name) \
                    and m.func.attr in ("append", "pop", "extend", "insert", "write", "sort", "reverse", "remove", "clear"):
                mutated.add(m.func.value.id)
            if isinstance(m, (ast.Assign, ast.AugAssign)):
                for t in (m.targets if isinstance(m, ast.Assign) else [m.target]):
                    if isinstance(t, ast.Subscript) and isinstance(t.value, ast.Name):
                        mutated.add(t.value.id)
        for m in ast.walk(self.node):
            if isinstance(m, ast.Assign) and isinstance(m.value, ast.Name) and len(m.targets) == 1 \
                    and isinstance(m.targets[0], ast.Name):
                x, y = m.targets[0].id, m.value.id
                ty = self.decl.get(y)
                if (isinstance(ty, tuple) and ty[0] in ("list", "iter") or ty == "strbuf") and ({x, y} & mutated):
                    if self._alias_after_mutations(m, {x, y}):
                        continue
                    _bad("%s = %s aliases a list that is mutated in place" % (x, y), m)
        if getattr(self.fun, "alias_state", None):
            # (functions that opt in to alias_state) `y = self.attr` on a state attribute holding a mutable value is
            # accepted only as a declared alias (_alias_stmt); any other such statement fails closed
            for m in ast.walk(self.node):
                if isinstance(m, ast.Assign) and len(m.targets) == 1 and isinstance(m.targets[0], ast.Name) \
                        and isinstance(m.value, ast.Attribute) and ast.unparse(m.value) in self.stattr:
                    ty = self.decl.get(self.stattr[ast.unparse(m.value)])
                    if (ty == "strbuf" or (isinstance(ty, tuple) and ty[0] in ("list", "iter", "dict", "coq"))) \
                            and self.fun.alias_state.get(m.targets[0].id) != ast.unparse(m.value):
                        _bad("%s = %s: an undeclared second name of a mutable state attribute" % (
                            m.targets[0].id, ast.unparse(m.value)), m)
        names = [x.arg for x in a.args]
        if self.fun.skip_first:
            names = names[1:]
        if kwonly_params:
            names = names + [x.arg for x in a.kwonlyargs]
        # parameters with defaults may be left out of the spec only if they are trailing (then the default is used)
        spec_names = [p for p, _ in self.fun.params]
        if names[:len(spec_names)] != spec_names:
            _bad("parameters of %s are %r, the spec says %r" % (self.fun.qual, names, spec_names), self.node)
        extra = names[len(spec_names):]
        defaults = dict(zip([x.arg for x in a.args][len(a.args) - len(a.defaults):], a.defaults))
        if kwonly_ok and not kwonly_params:
            extra = extra + [x.arg for x in a.kwonlyargs]
            defaults.update({x.arg: d_ for x, d_ in zip(a.kwonlyargs, a.kw_defaults)})
        env = {p: t for p, t in self.fun.ghost}
        env.update({p: t for p, t in self.fun.params})
        env.update({v: t for _, v, t in self.fun.state})
        pre_lets = ""
        for x in extra:
            if x not in defaults:
                _bad("parameter %r of %s is not in the spec and has no default" % (x, self.fun.qual), self.node)
            e = self.pure(defaults[x], env, self.declared(x, self.node))
            pfx, env = self.bind(x, e, env, self.node)
            pre_lets += pfx
        if self.fun.generator:
            env["out__"] = ("list", self.fun.ret)
            pre_lets += "let out__ := [] in "

        def k_end(e):
            if self.fun.generator:
                return self.ok("out__")
            if self.fun.result_var is not None:
                return self._result_var(e, self.node)
            if self.rty == "unit":
                return self.ok("tt")
            _bad("%s may fall off its end (implicit None)" % self.fun.qual, self.node)
        body = self.block(self.node.body, env, k_end, {})
        params = " ".join("(%s : %s)" % (cname(p), ty_coq(t)) for p, t in
                          self.fun.ghost + [(v, t) for _, v, t in self.fun.state] + self.fun.params)
        if self.fun.rec_group:
            # a member of a recursion group: one clause of a mutual Fixpoint on explicit fuel (joined by translate_module)
            if self.defs or "fuel" in self.decl or not self.method:
                _bad("%s: a method of a recursion group must be in method mode, without loops and without a "
                     "variable named fuel" % self.fun.qual, self.node)
            return "Fixpoint %s (fuel : nat) %s {struct fuel} : %s :=\n  match fuel with\n  | O => %s\n  | S fuel =>\n    %s%s\n  end.\n" % (
                self.fun.coq, params, self.rtype(), self.err("OutOfFuel"), pre_lets, body)
        main = "Definition %s %s : %s :=\n  %s%s.\n" % (self.fun.coq, params, self.rtype(), pre_lets, body)
        return "\n".join(self.defs + [main])


def translate_module(repo, mod):
    path = os.path.join(repo, mod.rel)
    with open(path, encoding="utf-8") as f:
        src = f.read()
    tree = ast.parse(src, path)
    mod.tree_ = tree      # for FunTr._self_stmt (defaults of a called method of the same object)
    out = ["(* GENERATED by harness/py2coq.py from %s — do not edit.  Regenerated on every run. *)\n" % mod.rel,
           "From Verif Require Import Lib.Base Lib.PyStr Lib.Dec Lib.Tr.\n"]
    for imp in mod.imports:
        out.append("From Verif Require Import %s.\n" % imp)
    out.append("Local Open Scope Z_scope.\n\n")
    for qual, expected in mod.regexes:
        if isinstance(expected, tuple):
            expected, exp_flags = expected
        else:
            exp_flags = ""
        got, flags = regex_text(tree, qual)
        if got != expected or flags != exp_flags:
            _bad("pattern %s is %r (flags %r); the hand-written leaf models %r (flags %r)" % (qual, got, flags, expected, exp_flags))
        out.append("(* %s = re.compile(%s%s) — modelled by a hand-written leaf, compared with the live pattern on every run *)\n"
                   % (qual, re.sub(r"\*\)", "* )", repr(got)), (", " + flags) if flags else ""))
    out.append("\n")
    global _COERCIONS, _HEAP
    _COERCIONS = list(mod.coercions)
    _HEAP = getattr(mod, "heap", None)
    try:
        grp = []        # clauses of the mutual Fixpoint being collected (Fun.rec_group)
        for i, fun in enumerate(mod.funs):
            node = find_def(tree, fun.qual)
            tr = FunTr(mod, fun, node)
            if fun.rec_group:
                if any(f.rec_group == fun.rec_group for f in mod.funs[:i]) and not grp:
                    _bad("the methods of the recursion group %r do not stand next to each other" % fun.rec_group)
                grp.append((fun.qual, tr.translate()))
                if i + 1 < len(mod.funs) and mod.funs[i + 1].rec_group == fun.rec_group:
                    continue
                out.append("(* %s — mutually recursive, on explicit fuel *)\n" % ", ".join(q for q, _ in grp))
                out.append("\nwith ".join([grp[0][1][:-2]] + [t[len("Fixpoint "):-2] for _, t in grp[1:]]) + ".\n")
                out.append("\n")
                grp = []
                continue
            out.append("(* %s *)\n" % fun.qual)
            out.append(tr.translate())
            out.append("\n")
            if _HEAP is not None:
                out.append(_heap_constructor(mod, fun, node))
    finally:
        _COERCIONS = []
        _HEAP = None
    return "".join(out)


def _heap_constructor(mod, fun, node):
    """HEAP MODE: after the translated `Cls.__init__` of a declared class (HeapClass.init), the definition `HeapClass.new`
    of `Cls(args…)`: allocate (HeapClass.alloc), run __init__ on the new reference, return the reference.  Checked: __init__
    runs on the heap alone, takes the reference first and returns None; it assigns every declared field by a top-level
    statement `self.<field> = …` (so no slot can be read before it was assigned)."""
    hp = mod.heap
    hits = [(c, hc) for c, hc in hp.classes.items() if hc.init == fun.coq and fun.qual == c + ".__init__"]
    if not hits:
        return ""
    cls, hc = hits[0]
    if not (hc.new and hc.alloc):
        _bad("class %s: init without new/alloc" % cls)
    if [(v, t) for _, v, t in fun.state] != [(hp.var, hp.ty)] or fun.ghost or fun.generator or fun.ret != "unit" \
            or not fun.params or fun.params[0][1] != ("ref", cls) or fun.skip_first:
        _bad("%s: __init__ of a heap class must run on the heap alone, take the new reference first and return None" % fun.qual)
    slf = fun.params[0][0]
    top = {ast.unparse(s.targets[0]) for s in node.body if isinstance(s, ast.Assign) and len(s.targets) == 1}
    missing = [f for f in hc.fields if "%s.%s" % (slf, f) not in top]
    if missing:
        _bad("%s does not assign the fields %r at top level" % (fun.qual, missing))
    rest = fun.params[1:]
    ps = " ".join("(%s : %s)" % (cname(p), ty_coq(t)) for p, t in rest)
    args = " ".join(cname(p) for p, _ in rest)
    h = cname(hp.var)
    return ("(* %s(…): the fresh allocation, then __init__ *)\n"
            "Definition %s (%s : %s) %s : mres %s (%s)%%type :=\n"
            "  let '(%s, %s) := %s %s in\n"
            "  match %s %s %s %s with\n  | MOk _ st__ => MOk %s st__\n  | MErr e__ st__ => MErr e__ st__\n  end.\n\n" % (
                cls, hc.new, h, ty_coq(hp.ty), ps, hc.coq, ty_coq(hp.ty),
                cname(slf), h, hc.alloc, h, hc.init, h, cname(slf), args, cname(slf)))
