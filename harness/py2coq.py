"""py2coq — a fail-closed translator from a small, typed subset of Python to Gallina.

It regenerates, on every run, the *control flow* of selected pure functions of /repo as
Coq functions (coq/Gen/Tr*.v); a hand-proved tie lemma (<Area>/Tie*.v, restated in
Props/Cxx.v) then shows that the regenerated function equals the hand-written model
function on ALL inputs.  A change of the Python function therefore changes the generated
Coq text and the tie lemma is re-checked against what the code says now.

Subset (anything else raises ExtractError => the tie is reported as broken):

  statements   x = e | x, y = e | x op= e | x = l.pop(0) | l.append(e) | buf.write(e) | yield e
               if/elif/else | while (explicit fuel) | for x in <list expr> [else] (structural)
               for x in <iterator variable> [else] (fuel; the iterator is shared state)
               return e | raise Exc(...) | continue | break | pass | docstrings
  expressions  names, int/str/None/bool constants, + - * // %, comparisons (one operator),
               and/or/not in boolean position, `x is [not] None`, `a in (..)`, `c in "lit"`,
               e1 if c else e2, tuples, list literals, subscripts l[i], len(), ord(),
               [f(x) for x in l], and calls listed in the module spec (other translated
               functions or primitives of a hand-written Coq module, e.g. regex leaves)

Semantics kept: evaluation order, exceptions (`result`), early return, for/else, shared
iterators, truthiness of lists/strings/ints/options, Python negative indexing.
Variables are typed by the spec (Python has no static types); the typing is checked while
translating (a mismatch is an ExtractError), and again by Coq's type checker.

Every `while` (and every loop over a shared iterator) becomes a Fixpoint on explicit fuel
returning `Err OutOfFuel` when exhausted; the tie lemma proves the fuel expression suffices.
"""
import ast
import os
import re

from .extract import ExtractError, coq_string

RESERVED = {"match", "end", "in", "fun", "let", "if", "then", "else", "as", "at", "return", "fix", "with",
            "forall", "exists", "Type", "Prop", "Set", "do", "cofix", "struct", "where", "using", "for"}

ERR = {"ValueError": "ValueError", "KeyError": "KeyError", "TypeError": "TypeError", "IndexError": "IndexError",
       "MachineReadableFormatError": "FormatError", "NotMachineReadableError": "FormatError",
       "AssertionError": "AssertionError", "NotImplementedError": "NotImplementedError",
       "StopIteration": "StopIteration", "ArError": "DebError", "DebError": "DebError", "IOError": "IOError",
       "OSError": "IOError", "ChangelogParseError": "ParseError"}


def ty_coq(t):
    if isinstance(t, str):
        return {"Z": "Z", "char": "N", "str": "str", "bool": "bool", "unit": "unit", "strbuf": "str"}.get(t) or _bad("type %r" % t)
    k = t[0]
    if k in ("list", "iter"):
        return "(list %s)" % ty_coq(t[1])
    if k == "option":
        return "(option %s)" % ty_coq(t[1])
    if k == "tuple":
        return "(" + " * ".join(ty_coq(x) for x in t[1:]) + ")%type"
    if k == "coq":
        return t[1]
    _bad("type %r" % (t,))


def _bad(msg, node=None):
    if node is not None and hasattr(node, "lineno"):
        msg = "line %d: %s" % (node.lineno, msg)
    raise ExtractError("py2coq: " + msg)


def same_repr(a, b):
    """Types with the same Coq representation."""
    def norm(t):
        if t == "strbuf":
            return "str"
        if isinstance(t, tuple) and t[0] == "iter":
            return ("list", norm(t[1]))
        if isinstance(t, tuple) and t[0] in ("list", "option"):
            return (t[0], norm(t[1]))
        if isinstance(t, tuple) and t[0] == "tuple":
            return ("tuple",) + tuple(norm(x) for x in t[1:])
        if t == "str":
            return ("list", "char")
        return t
    return norm(a) == norm(b)


def coerce(text, frm, to, node=None):
    if to is None or same_repr(frm, to):
        return text
    if isinstance(to, tuple) and to[0] == "option" and same_repr(frm, to[1]):
        return "(Some %s)" % text
    if frm == "char" and same_repr(to, "str"):
        return "[%s]" % text
    if frm == "none" and isinstance(to, tuple) and to[0] == "option":
        return "None"
    if frm == "nil" and (to in ("str", "strbuf") or (isinstance(to, tuple) and to[0] in ("list", "iter"))):
        return "[]"
    _bad("cannot use a value of type %r where %r is expected (%s)" % (frm, to, text[:60]), node)


class Call:
    """How a Python call is rendered: `coq` applied to the translated arguments.
    args: expected types; ret: result type; monadic: returns `result ret` (may raise)."""
    def __init__(self, coq, args, ret, monadic=False):
        self.coq, self.args, self.ret, self.monadic = coq, list(args), ret, monadic


class Fun:
    def __init__(self, coq, qual, params, ret, locals=None, fuel=None, skip_first=False, generator=False):
        self.coq, self.qual, self.params, self.ret = coq, qual, list(params), ret
        self.locals = dict(locals or {})
        self.fuel = dict(fuel or {})
        self.skip_first = skip_first
        self.generator = generator


class Module:
    def __init__(self, name, rel, funs, calls=None, imports=(), regexes=(), consts=None):
        self.name, self.rel, self.funs = name, rel, list(funs)
        self.calls = dict(calls or {})
        self.imports = list(imports)
        self.regexes = list(regexes)      # (qualified name, expected pattern text): asserted, fail-closed
        self.consts = dict(consts or {})  # python name (module/class constant) -> (coq text, type)


def cname(n):
    return n + "_v" if n in RESERVED or n.startswith("_") else n


def find_def(tree, qual):
    parts = qual.split(".")
    body = tree.body
    node = None
    for p in parts:
        node = None
        for n in body:
            if isinstance(n, (ast.FunctionDef, ast.ClassDef)) and n.name == p:
                node = n
        if node is None:
            _bad("definition %s not found" % qual)
        body = node.body
    if not isinstance(node, ast.FunctionDef):
        _bad("%s is not a function" % qual)
    return node


def find_value(tree, qual):
    parts = qual.split(".")
    body = tree.body
    for p in parts[:-1]:
        nxt = [n for n in body if isinstance(n, ast.ClassDef) and n.name == p]
        if not nxt:
            _bad("class %s not found" % p)
        body = nxt[-1].body
    vals = []
    for n in body:
        if isinstance(n, ast.Assign) and any(isinstance(t, ast.Name) and t.id == parts[-1] for t in n.targets):
            vals.append(n.value)
    if len(vals) != 1:
        _bad("expected exactly one assignment to %s, found %d" % (qual, len(vals)))
    return vals[0]


def regex_text(tree, qual):
    """The pattern text of `X = re.compile(<literal>[, flags])`; flags are returned as source text."""
    v = find_value(tree, qual)
    if not (isinstance(v, ast.Call) and ast.unparse(v.func) == "re.compile" and v.args
            and isinstance(v.args[0], ast.Constant) and isinstance(v.args[0].value, (str, bytes))):
        _bad("%s is not re.compile(<literal>)" % qual)
    flags = ", ".join(ast.unparse(a) for a in v.args[1:]) + "".join(
        ", %s=%s" % (k.arg, ast.unparse(k.value)) for k in v.keywords)
    return v.args[0].value, flags


class E:
    """A translated expression: monadic prelude [(var, result-typed text)], pure text, type."""
    def __init__(self, pre, text, ty):
        self.pre, self.text, self.ty = pre, text, ty


def wrap(pre, body):
    out = body
    for v, m in reversed(pre):
        out = "(do %s <- %s; %s)" % (v, m, out)
    return out


class FunTr:
    def __init__(self, mod, fun, node):
        self.mod, self.fun, self.node = mod, fun, node
        self.defs = []
        self.nloop = 0
        self.ntmp = 0
        self.njoin = 0
        self.rty = ("list", fun.ret) if fun.generator else fun.ret
        self.decl = dict(fun.params)
        self.decl.update(fun.locals)
        if fun.generator:
            self.decl["out__"] = ("list", fun.ret)
        self.order = [p for p, _ in fun.params] + (["out__"] if fun.generator else []) + \
                     [k for k in fun.locals]

    # ------------------------------------------------------------------ helpers
    def tmp(self):
        self.ntmp += 1
        return "tmp%d_" % self.ntmp

    def declared(self, name, node=None):
        if name not in self.decl:
            _bad("variable %r has no declared type in the spec of %s" % (name, self.fun.qual), node)
        return self.decl[name]

    def truthy(self, e, node=None):
        t = e.ty
        if t == "bool":
            return e.text
        if t == "Z":
            return "(negb (%s =? 0)%%Z)" % e.text
        if t in ("str", "strbuf") or (isinstance(t, tuple) and t[0] == "list"):
            return "(negb (tr_is_nil %s))" % e.text
        if isinstance(t, tuple) and t[0] == "option":
            return "(tr_is_some %s)" % e.text
        _bad("truth value of type %r is not supported" % (t,), node)

    def vars_of(self, env):
        return [v for v in self.order if v in env]

    # ------------------------------------------------------------------ expressions
    def expr(self, n, env, want=None):
        e = self._expr(n, env, want)
        return e

    def pure(self, n, env, want=None):
        e = self.expr(n, env, want)
        if e.pre:
            _bad("expression may raise where only a pure one is supported: %s" % ast.unparse(n), n)
        return e

    def cond(self, n, env):
        """A test in boolean position -> E of type bool (prelude possible)."""
        if isinstance(n, ast.BoolOp):
            parts = [self.cond(v, env) for v in n.values]
            op = "&&" if isinstance(n.op, ast.And) else "||"
            if all(not p.pre for p in parts[1:]):
                return E(parts[0].pre, "(" + (" %s " % op).join(p.text for p in parts) + ")", "bool")
            # short-circuit with effects: evaluate lazily in the monad
            acc = parts[-1]
            acc_m = wrap(acc.pre, "Ok %s" % acc.text)
            for p in reversed(parts[:-1]):
                if isinstance(n.op, ast.And):
                    acc_m = wrap(p.pre, "(if %s then %s else Ok false)" % (p.text, acc_m))
                else:
                    acc_m = wrap(p.pre, "(if %s then Ok true else %s)" % (p.text, acc_m))
            t = self.tmp()
            return E([(t, acc_m)], t, "bool")
        if isinstance(n, ast.UnaryOp) and isinstance(n.op, ast.Not):
            c = self.cond(n.operand, env)
            return E(c.pre, "(negb %s)" % c.text, "bool")
        e = self.expr(n, env)
        return E(e.pre, self.truthy(e, n), "bool")

    def _const(self, n, want):
        v = n.value
        if v is None:
            if isinstance(want, tuple) and want[0] == "option":
                return E([], "None", want)
            return E([], "None", "none")
        if isinstance(v, bool):
            return E([], "true" if v else "false", "bool")
        if isinstance(v, int):
            return E([], "(%d)%%Z" % v, "Z")
        if isinstance(v, (str, bytes)):
            cps = list(v) if isinstance(v, bytes) else [ord(c) for c in v]
            if want == "char" and len(cps) == 1:
                return E([], "%d%%N" % cps[0], "char")
            return E([], "[" + "; ".join("%d" % c for c in cps) + "]%N", "str")
        _bad("constant %r" % (v,), n)

    def _expr(self, n, env, want):
        if isinstance(n, ast.Constant):
            return self._const(n, want)
        if isinstance(n, ast.Name):
            if n.id in env:
                return E([], cname(n.id), env[n.id])
            if n.id in self.mod.consts:
                t, ty = self.mod.consts[n.id]
                return E([], t, ty)
            _bad("name %r is not defined here" % n.id, n)
        if isinstance(n, ast.Attribute):
            key = ast.unparse(n)
            if key in self.mod.consts:
                t, ty = self.mod.consts[key]
                return E([], t, ty)
            _bad("attribute %s" % key, n)
        if isinstance(n, ast.Tuple):
            wants = list(want[1:]) if isinstance(want, tuple) and want[0] == "tuple" and len(want) - 1 == len(n.elts) \
                else [None] * len(n.elts)
            es = [self.expr(x, env, w) for x, w in zip(n.elts, wants)]
            texts = [coerce(e.text, e.ty, w, x) if w is not None else e.text for e, w, x in zip(es, wants, n.elts)]
            tys = [w if w is not None else e.ty for e, w in zip(es, wants)]
            return E(sum((e.pre for e in es), []), "(" + ", ".join(texts) + ")", ("tuple",) + tuple(tys))
        if isinstance(n, ast.List):
            if not n.elts:
                if want is not None:
                    return E([], "[]", want)
                return E([], "[]", "nil")
            elt = want[1] if isinstance(want, tuple) and want[0] in ("list", "iter") else None
            es = [self.expr(x, env, elt) for x in n.elts]
            ety = elt or es[0].ty
            return E(sum((e.pre for e in es), []),
                     "[" + "; ".join(coerce(e.text, e.ty, ety, x) for e, x in zip(es, n.elts)) + "]", ("list", ety))
        if isinstance(n, ast.UnaryOp):
            if isinstance(n.op, ast.Not):
                return self.cond(n, env)
            if isinstance(n.op, ast.USub):
                e = self.expr(n.operand, env, "Z")
                if e.ty != "Z":
                    _bad("unary minus on %r" % (e.ty,), n)
                return E(e.pre, "(- %s)%%Z" % e.text, "Z")
            _bad("unary operator", n)
        if isinstance(n, ast.BoolOp):
            return self.cond(n, env)
        if isinstance(n, ast.BinOp):
            return self._binop(n, env, want)
        if isinstance(n, ast.Compare):
            return self._compare(n, env)
        if isinstance(n, ast.IfExp):
            return self._ifexp(n, env, want)
        if isinstance(n, ast.Subscript):
            base = self.expr(n.value, env)
            if isinstance(n.slice, ast.Slice):
                if n.slice.step is not None:
                    _bad("slice step", n)
                lo = self.expr(n.slice.lower, env, "Z") if n.slice.lower is not None else None
                hi = self.expr(n.slice.upper, env, "Z") if n.slice.upper is not None else None
                for b in (lo, hi):
                    if b is not None and b.ty != "Z":
                        _bad("slice bound of type %r" % (b.ty,), n)
                self._elem_ty(base.ty, n)
                return E(base.pre + (lo.pre if lo else []) + (hi.pre if hi else []),
                         "(tr_slice %s %s %s)" % (base.text, "(Some %s)" % lo.text if lo else "None",
                                                  "(Some %s)" % hi.text if hi else "None"),
                         "str" if base.ty == "strbuf" else base.ty)
            idx = self.expr(n.slice, env, "Z")
            if idx.ty != "Z":
                _bad("index of type %r" % (idx.ty,), n)
            if base.ty in ("str", "strbuf"):
                ety = "char"
            elif isinstance(base.ty, tuple) and base.ty[0] == "list":
                ety = base.ty[1]
            else:
                _bad("subscript of %r" % (base.ty,), n)
            t = self.tmp()
            return E(base.pre + idx.pre + [(t, "tr_index %s %s" % (base.text, idx.text))], t, ety)
        if isinstance(n, ast.ListComp):
            if len(n.generators) != 1 or n.generators[0].is_async \
                    or not isinstance(n.generators[0].target, ast.Name):
                _bad("only [f(x) for x in l if p(x)] comprehensions", n)
            g = n.generators[0]
            it = self.expr(g.iter, env)
            ety = self._elem_ty(it.ty, g.iter)
            env2 = dict(env)
            env2[g.target.id] = ety
            if g.ifs:
                conds = [self.cond(c, env2) for c in g.ifs]
                if any(c.pre for c in conds):
                    _bad("comprehension filter that may raise", n)
                it = E(it.pre, "(tr_filter (fun %s => %s) %s)" % (
                    cname(g.target.id), " && ".join(c.text for c in conds), it.text), ("list", ety))
            body = self.expr(n.elt, env2)
            x = cname(g.target.id)
            if body.pre:
                t = self.tmp()
                return E(it.pre + [(t, "tr_mapM (fun %s => %s) %s" % (x, wrap(body.pre, "Ok %s" % body.text), it.text))],
                         t, ("list", body.ty))
            return E(it.pre, "(map (fun %s => %s) %s)" % (x, body.text, it.text), ("list", body.ty))
        if isinstance(n, ast.Call):
            return self._call(n, env, want)
        _bad("expression %s" % type(n).__name__, n)

    def _elem_ty(self, t, node):
        if t in ("str", "strbuf"):
            return "char"
        if isinstance(t, tuple) and t[0] in ("list", "iter"):
            return t[1]
        _bad("cannot iterate over %r" % (t,), node)

    def _binop(self, n, env, want):
        a = self.expr(n.left, env)
        b = self.expr(n.right, env, a.ty if a.ty in ("Z",) else None)
        pre = a.pre + b.pre
        if a.ty == "Z" and b.ty == "Z":
            if isinstance(n.op, ast.Add):
                return E(pre, "(%s + %s)%%Z" % (a.text, b.text), "Z")
            if isinstance(n.op, ast.Sub):
                return E(pre, "(%s - %s)%%Z" % (a.text, b.text), "Z")
            if isinstance(n.op, ast.Mult):
                return E(pre, "(%s * %s)%%Z" % (a.text, b.text), "Z")
            if isinstance(n.op, (ast.FloorDiv, ast.Mod)):
                t = self.tmp()
                f = "tr_floordiv" if isinstance(n.op, ast.FloorDiv) else "tr_mod"
                return E(pre + [(t, "%s %s %s" % (f, a.text, b.text))], t, "Z")
        if isinstance(n.op, ast.Add) and a.ty != "Z":
            if same_repr(a.ty, b.ty) and (a.ty in ("str", "strbuf") or a.ty[0] == "list"):
                return E(pre, "(%s ++ %s)" % (a.text, b.text), a.ty)
            if a.ty in ("str", "char") and b.ty in ("str", "char"):
                return E(pre, "(%s ++ %s)" % (coerce(a.text, a.ty, "str"), coerce(b.text, b.ty, "str")), "str")
        _bad("operator %s on %r and %r" % (type(n.op).__name__, a.ty, b.ty), n)

    def _compare(self, n, env):
        if len(n.ops) != 1:
            _bad("chained comparison", n)
        op, rn = n.ops[0], n.comparators[0]
        if isinstance(op, (ast.Is, ast.IsNot)):
            if not (isinstance(rn, ast.Constant) and rn.value is None):
                _bad("`is` only against None", n)
            a = self.expr(n.left, env)
            if not (isinstance(a.ty, tuple) and a.ty[0] == "option"):
                if a.ty == "none":
                    return E(a.pre, "true" if isinstance(op, ast.Is) else "false", "bool")
                # a narrowed or never-None value
                return E(a.pre, "false" if isinstance(op, ast.Is) else "true", "bool")
            return E(a.pre, "(%s %s)" % ("tr_is_none" if isinstance(op, ast.Is) else "tr_is_some", a.text), "bool")
        a = self.expr(n.left, env)
        if isinstance(op, (ast.In, ast.NotIn)):
            neg = isinstance(op, ast.NotIn)
            if isinstance(rn, ast.Tuple):
                items = [self.pure(x, env, a.ty) for x in rn.elts]
                if a.ty in ("str", "char"):
                    lst = "[" + "; ".join(coerce(i.text, i.ty, "str", rn) for i in items) + "]"
                    txt = "(tr_str_in %s %s)" % (coerce(a.text, a.ty, "str"), lst)
                else:
                    _bad("membership of %r in a tuple" % (a.ty,), n)
            else:
                b = self.pure(rn, env)
                if a.ty == "char" and b.ty in ("str", "strbuf"):
                    txt = "(tr_char_in %s %s)" % (a.text, b.text)
                else:
                    _bad("membership of %r in %r" % (a.ty, b.ty), n)
            return E(a.pre, "(negb %s)" % txt if neg else txt, "bool")
        b = self.expr(rn, env, a.ty)
        pre = a.pre + b.pre
        ta, tb = a.ty, b.ty
        if ta == "Z" and tb == "Z":
            sym = {ast.Eq: "=?", ast.NotEq: None, ast.Lt: "<?", ast.LtE: "<=?", ast.Gt: ">?", ast.GtE: ">=?"}[type(op)]
            if sym is None:
                return E(pre, "(negb (%s =? %s)%%Z)" % (a.text, b.text), "bool")
            return E(pre, "(%s %s %s)%%Z" % (a.text, sym, b.text), "bool")
        if isinstance(op, (ast.Eq, ast.NotEq)):
            if ta == "char" and tb == "char":
                txt = "(%s =? %s)%%N" % (a.text, b.text)
            elif ta in ("str", "strbuf", "char") and tb in ("str", "strbuf", "char"):
                txt = "(str_eqb %s %s)" % (coerce(a.text, ta, "str"), coerce(b.text, tb, "str"))
            elif ta == "bool" and tb == "bool":
                txt = "(Bool.eqb %s %s)" % (a.text, b.text)
            else:
                _bad("== on %r and %r" % (ta, tb), n)
            return E(pre, "(negb %s)" % txt if isinstance(op, ast.NotEq) else txt, "bool")
        _bad("comparison %s on %r and %r" % (type(op).__name__, ta, tb), n)

    def _narrow(self, test, env):
        """`X is None` / `X is not None` on an option-typed variable -> (name, none_first) else None."""
        if isinstance(test, ast.Compare) and len(test.ops) == 1 and isinstance(test.ops[0], (ast.Is, ast.IsNot)) \
                and isinstance(test.left, ast.Name) and isinstance(test.comparators[0], ast.Constant) \
                and test.comparators[0].value is None and test.left.id in env \
                and isinstance(env[test.left.id], tuple) and env[test.left.id][0] == "option":
            return test.left.id, isinstance(test.ops[0], ast.Is)
        return None

    def _ifexp(self, n, env, want):
        nar = self._narrow(n.test, env)
        if nar:
            name, none_first = nar
            env_some = dict(env)
            env_some[name] = env[name][1]
            n_none, n_some = (n.body, n.orelse) if none_first else (n.orelse, n.body)
            e_none = self.expr(n_none, env, want)
            e_some = self.expr(n_some, env_some, want)
            ty = want or (e_some.ty if e_none.ty in ("none", "nil") else e_none.ty)
            if e_none.ty == "none" and want is None:
                ty = ("option", e_some.ty)
            t_none = coerce(e_none.text, e_none.ty, ty, n)
            t_some = coerce(e_some.text, e_some.ty, ty, n)
            if e_none.pre or e_some.pre:
                t = self.tmp()
                m = "match %s with None => %s | Some %s => %s end" % (
                    cname(name), wrap(e_none.pre, "Ok %s" % t_none), cname(name), wrap(e_some.pre, "Ok %s" % t_some))
                return E([(t, m)], t, ty)
            return E([], "(match %s with None => %s | Some %s => %s end)" % (cname(name), t_none, cname(name), t_some), ty)
        c = self.cond(n.test, env)
        a = self.expr(n.body, env, want)
        b = self.expr(n.orelse, env, want)
        ty = want or (b.ty if a.ty in ("none", "nil") else a.ty)
        ta, tb = coerce(a.text, a.ty, ty, n), coerce(b.text, b.ty, ty, n)
        if a.pre or b.pre:
            t = self.tmp()
            return E(c.pre + [(t, "(if %s then %s else %s)" % (c.text, wrap(a.pre, "Ok %s" % ta), wrap(b.pre, "Ok %s" % tb)))], t, ty)
        return E(c.pre, "(if %s then %s else %s)" % (c.text, ta, tb), ty)

    def _call(self, n, env, want):
        if n.keywords:
            _bad("keyword arguments", n)
        key = ast.unparse(n.func)
        if key in self.mod.calls:
            alts = self.mod.calls[key]
            alts = alts if isinstance(alts, (list, tuple)) else [alts]
            c = es = texts = None
            errs = []
            for cand in alts:          # overloads: the first whose parameter types fit
                if len(cand.args) != len(n.args):
                    errs.append("%s expects %d arguments" % (key, len(cand.args)))
                    continue
                try:
                    es = [self.expr(a, env, w) for a, w in zip(n.args, cand.args)]
                    texts = [coerce(e.text, e.ty, w, n) for e, w in zip(es, cand.args)]
                    c = cand
                    break
                except ExtractError as ex:
                    errs.append(str(ex))
            if c is None:
                _bad("no rendering of %s fits: %s" % (key, "; ".join(errs)), n)
            pre = sum((e.pre for e in es), [])
            app = "%s %s" % (c.coq, " ".join(texts)) if texts else c.coq
            if c.monadic:
                t = self.tmp()
                return E(pre + [(t, app)], t, c.ret)
            return E(pre, "(%s)" % app, c.ret)
        if isinstance(n.func, ast.Attribute):
            # method call on a typed receiver: spec key "<type>.method", the receiver is the first argument
            try:
                recv = self.expr(n.func.value, env)
            except ExtractError:
                recv = None
            if recv is not None:
                tname = recv.ty if isinstance(recv.ty, str) else recv.ty[0]
                mkey = "<%s>.%s" % (tname, n.func.attr)
                if mkey in self.mod.calls:
                    alts = self.mod.calls[mkey]
                    alts = alts if isinstance(alts, (list, tuple)) else [alts]
                    errs = []
                    for cand in alts:
                        if len(cand.args) != len(n.args) + 1:
                            errs.append("arity")
                            continue
                        try:
                            es = [recv] + [self.expr(a, env, w) for a, w in zip(n.args, cand.args[1:])]
                            texts = [coerce(e.text, e.ty, w, n) for e, w in zip(es, cand.args)]
                        except ExtractError as ex:
                            errs.append(str(ex))
                            continue
                        pre = sum((e.pre for e in es), [])
                        app = "%s %s" % (cand.coq, " ".join(texts))
                        if cand.monadic:
                            t = self.tmp()
                            return E(pre + [(t, app)], t, cand.ret)
                        return E(pre, "(%s)" % app, cand.ret)
                    _bad("no rendering of %s fits: %s" % (mkey, "; ".join(errs)), n)
        if key == "enumerate" and len(n.args) == 1:
            e = self.expr(n.args[0], env)
            return E(e.pre, "(tr_enumerate %s)" % e.text, ("list", ("tuple", "Z", self._elem_ty(e.ty, n))))
        if key in ("list", "tuple") and len(n.args) == 1:
            a0 = n.args[0]
            if isinstance(a0, ast.GeneratorExp):
                a0 = ast.copy_location(ast.ListComp(elt=a0.elt, generators=a0.generators), a0)
            e = self.expr(a0, env, want)
            return E(e.pre, e.text, ("list", self._elem_ty(e.ty, n)))
        if key == "len" and len(n.args) == 1:
            e = self.expr(n.args[0], env)
            self._elem_ty(e.ty, n)
            return E(e.pre, "(tr_len %s)" % e.text, "Z")
        if key == "ord" and len(n.args) == 1:
            e = self.expr(n.args[0], env)
            if e.ty == "char":
                return E(e.pre, "(Z.of_N %s)" % e.text, "Z")
            if e.ty == "str":
                t = self.tmp()
                return E(e.pre + [(t, "tr_ord %s" % e.text)], t, "Z")
            _bad("ord of %r" % (e.ty,), n)
        if key in ("min", "max") and len(n.args) == 2:
            a, b = self.expr(n.args[0], env, "Z"), self.expr(n.args[1], env, "Z")
            if a.ty == "Z" and b.ty == "Z":
                return E(a.pre + b.pre, "(tr_%s %s %s)" % (key, a.text, b.text), "Z")
        if key == "iter" and len(n.args) == 1:
            e = self.expr(n.args[0], env)
            return E(e.pre, e.text, ("iter", self._elem_ty(e.ty, n)))
        if key == "io.StringIO" and not n.args:
            return E([], "[]", "strbuf")
        if isinstance(n.func, ast.Attribute) and n.func.attr == "getvalue" and not n.args:
            e = self.expr(n.func.value, env)
            if e.ty == "strbuf":
                return E(e.pre, e.text, "str")
        _bad("call of %s is not in the spec" % key, n)

    # ------------------------------------------------------------------ statements
    def assigned(self, stmts):
        """Python names that a block may (re)bind or mutate, syntactically."""
        out = []

        def add(x):
            if x not in out:
                out.append(x)
        for s in stmts:
            for n in ast.walk(s):
                if isinstance(n, (ast.Assign, ast.AugAssign, ast.For)):
                    tgts = n.targets if isinstance(n, ast.Assign) else [n.target]
                    for t in tgts:
                        for m in ast.walk(t):
                            if isinstance(m, ast.Name):
                                add(m.id)
                    if isinstance(n, ast.For) and isinstance(n.iter, ast.Name):
                        add(n.iter.id)          # a shared iterator is advanced
                if isinstance(n, ast.Call) and isinstance(n.func, ast.Attribute) and isinstance(n.func.value, ast.Name) \
                        and n.func.attr in ("append", "pop", "write", "extend", "insert"):
                    add(n.func.value.id)
                if isinstance(n, (ast.Yield, ast.YieldFrom)):
                    add("out__")
        return out

    def falls_through(self, stmts):
        """Conservative: False only when the block certainly ends in return/raise/continue/break."""
        if not stmts:
            return True
        last = stmts[-1]
        if isinstance(last, (ast.Return, ast.Raise, ast.Continue, ast.Break)):
            return False
        if isinstance(last, ast.If):
            return self.falls_through(last.body) or self.falls_through(last.orelse)
        return True

    def bind(self, name, e, env, node):
        """let name := e (coerced to the declared type); returns (text prefix, new env)."""
        ty = self.declared(name, node)
        env2 = dict(env)
        env2[name] = ty
        return "let %s := %s in " % (cname(name), coerce(e.text, e.ty, ty, node)), env2

    def block(self, stmts, env, k, ctx):
        if not stmts:
            return k(env)
        s, rest = stmts[0], stmts[1:]
        nxt = lambda env2: self.block(rest, env2, k, ctx)   # noqa: E731

        if isinstance(s, ast.Expr) and isinstance(s.value, ast.Constant) and isinstance(s.value.value, str):
            return nxt(env)
        if isinstance(s, ast.Pass):
            return nxt(env)
        if isinstance(s, ast.FunctionDef):
            # a nested helper: must be translated separately (its name must be a key of the spec's calls)
            if s.name not in self.mod.calls:
                _bad("nested function %s is not in the spec" % s.name, s)
            return nxt(env)
        if isinstance(s, ast.Return):
            if self.fun.generator:
                if s.value is not None:
                    _bad("return with a value in a generator", s)
                return "Ok out__"
            if s.value is None:
                if self.rty != "unit":
                    _bad("bare return in a function returning %r" % (self.rty,), s)
                return "Ok tt"
            e = self.expr(s.value, env, self.rty)
            return wrap(e.pre, "Ok %s" % coerce(e.text, e.ty, self.rty, s))
        if isinstance(s, ast.Raise):
            exc = s.exc
            nm = exc.func if isinstance(exc, ast.Call) else exc
            key = ast.unparse(nm).split(".")[-1] if nm is not None else None
            if key not in ERR:
                _bad("raise of %r" % key, s)
            # the message expression is evaluated first; only %-formatting of names/constants is accepted (cannot raise)
            if isinstance(exc, ast.Call):
                for a in exc.args:
                    for m in ast.walk(a):
                        if isinstance(m, (ast.Call, ast.Subscript, ast.Attribute)):
                            _bad("exception message too complex to be known not to raise", s)
            return "Err %s" % ERR[key]
        if isinstance(s, ast.Continue):
            if not ctx.get("cont"):
                _bad("continue outside a loop", s)
            return ctx["cont"](env)
        if isinstance(s, ast.Break):
            if not ctx.get("brk"):
                _bad("break outside a loop", s)
            return ctx["brk"](env)
        if isinstance(s, ast.Assign):
            if len(s.targets) != 1:
                _bad("multiple assignment targets", s)
            t = s.targets[0]
            # x = l.pop(0)
            if isinstance(t, ast.Name) and isinstance(s.value, ast.Call) and isinstance(s.value.func, ast.Attribute) \
                    and s.value.func.attr == "pop" and isinstance(s.value.func.value, ast.Name):
                lst = s.value.func.value.id
                if lst not in env or not (isinstance(env[lst], tuple) and env[lst][0] == "list"):
                    _bad("pop on %r" % lst, s)
                args = s.value.args
                if not (len(args) == 1 and isinstance(args[0], ast.Constant) and args[0].value == 0):
                    _bad("only pop(0) is supported", s)
                ety = env[lst][1]
                env2 = dict(env)
                tty = self.declared(t.id, s)
                env2[t.id] = tty
                h = self.tmp()
                return "(match %s with [] => Err IndexError | %s :: %s => let %s := %s in %s end)" % (
                    cname(lst), h, cname(lst), cname(t.id), coerce(h, ety, tty, s), nxt(env2))
            if isinstance(t, ast.Name):
                e = self.expr(s.value, env, self.declared(t.id, s))
                pfx, env2 = self.bind(t.id, e, env, s)
                return wrap(e.pre, "(" + pfx + nxt(env2) + ")") if e.pre else "(" + pfx + nxt(env2) + ")"
            if isinstance(t, ast.Tuple) and all(isinstance(x, ast.Name) for x in t.elts):
                e = self.expr(s.value, env)
                if not (isinstance(e.ty, tuple) and e.ty[0] == "tuple" and len(e.ty) - 1 == len(t.elts)):
                    _bad("tuple unpacking of %r" % (e.ty,), s)
                env2 = dict(env)
                fresh = []
                lets = ""
                for x, ty in zip(t.elts, e.ty[1:]):
                    f = self.tmp()
                    fresh.append(f)
                    dty = self.declared(x.id, s)
                    env2[x.id] = dty
                    lets += "let %s := %s in " % (cname(x.id), coerce(f, ty, dty, s))
                body = "(let '(%s) := %s in %s%s)" % (", ".join(fresh), e.text, lets, nxt(env2))
                return wrap(e.pre, body)
            if isinstance(t, ast.Subscript) and isinstance(t.value, ast.Name) and t.value.id in env:
                obj = t.value.id
                oty = env[obj]
                if not (isinstance(oty, tuple) and oty[0] == "list"):
                    _bad("item assignment on %r" % (oty,), s)
                if isinstance(t.slice, ast.Slice):
                    if t.slice.step is not None:
                        _bad("slice step", s)
                    lo = self.expr(t.slice.lower, env, "Z") if t.slice.lower is not None else None
                    hi = self.expr(t.slice.upper, env, "Z") if t.slice.upper is not None else None
                    v = self.expr(s.value, env, oty)
                    pre = (lo.pre if lo else []) + (hi.pre if hi else []) + v.pre
                    return wrap(pre, "(let %s := tr_slice_assign %s %s %s %s in %s)" % (
                        cname(obj), cname(obj), "(Some %s)" % lo.text if lo else "None",
                        "(Some %s)" % hi.text if hi else "None", coerce(v.text, v.ty, oty, s), nxt(env)))
                v = self.expr(s.value, env, oty[1])     # Python evaluates the value first
                i = self.expr(t.slice, env, "Z")
                tmpn = self.tmp()
                return wrap(v.pre + i.pre + [(tmpn, "tr_set_index %s %s %s" % (cname(obj), i.text, coerce(v.text, v.ty, oty[1], s)))],
                            "(let %s := %s in %s)" % (cname(obj), tmpn, nxt(env)))
            _bad("assignment target %s" % ast.unparse(t), s)
        if isinstance(s, ast.AugAssign):
            if not isinstance(s.target, ast.Name):
                _bad("augmented assignment target", s)
            fake = ast.BinOp(left=ast.Name(id=s.target.id, ctx=ast.Load()), op=s.op, right=s.value)
            ast.copy_location(fake, s)
            ast.fix_missing_locations(fake)
            e = self.expr(fake, env)
            pfx, env2 = self.bind(s.target.id, e, env, s)
            return wrap(e.pre, "(" + pfx + nxt(env2) + ")")
        if isinstance(s, ast.Expr) and isinstance(s.value, ast.Yield):
            if not self.fun.generator or s.value.value is None:
                _bad("yield", s)
            e = self.expr(s.value.value, env, self.fun.ret)
            return wrap(e.pre, "(let out__ := out__ ++ [%s] in %s)" % (coerce(e.text, e.ty, self.fun.ret, s), nxt(env)))
        if isinstance(s, ast.Expr) and isinstance(s.value, ast.Call) and isinstance(s.value.func, ast.Attribute) \
                and isinstance(s.value.func.value, ast.Name) and s.value.func.value.id in env:
            obj, meth, args = s.value.func.value.id, s.value.func.attr, s.value.args
            oty = env[obj]
            if meth == "append" and len(args) == 1 and isinstance(oty, tuple) and oty[0] == "list":
                e = self.expr(args[0], env, oty[1])
                return wrap(e.pre, "(let %s := %s ++ [%s] in %s)" % (cname(obj), cname(obj), coerce(e.text, e.ty, oty[1], s), nxt(env)))
            if meth == "write" and len(args) == 1 and oty == "strbuf":
                e = self.expr(args[0], env, "str")
                return wrap(e.pre, "(let %s := %s ++ %s in %s)" % (cname(obj), cname(obj), coerce(e.text, e.ty, "str", s), nxt(env)))
            _bad("statement %s" % ast.unparse(s), s)
        if isinstance(s, ast.If):
            return self._if(s, rest, env, k, ctx)
        if isinstance(s, ast.While):
            return self._while(s, rest, env, k, ctx)
        if isinstance(s, ast.For):
            return self._for(s, rest, env, k, ctx)
        _bad("statement %s" % type(s).__name__, s)

    # join points -------------------------------------------------------------
    def join(self, env, assigned, k_after):
        """Returns (prefix defining the join function, call(env_branch) -> text)."""
        vs = [v for v in self.order if v in assigned and v in env]
        # variables assigned in the branches but not defined before are NOT visible afterwards (fail closed on use)
        self.njoin += 1
        name = "k%d_" % self.njoin
        env_after = dict(env)
        for v in vs:
            env_after[v] = self.declared(v)
        body = k_after(env_after)
        if not vs:
            return "let %s := (fun _ : unit => %s) in " % (name, body), (lambda e: "%s tt" % name)
        params = " ".join("(%s : %s)" % (cname(v), ty_coq(self.declared(v))) for v in vs)

        def call(e):
            return "%s %s" % (name, " ".join(coerce(cname(v), e[v], self.declared(v)) for v in vs))
        return "let %s := (fun %s => %s) in " % (name, params, body), call

    def _if(self, s, rest, env, k, ctx):
        after = lambda env2: self.block(rest, env2, k, ctx)   # noqa: E731
        ft_body, ft_else = self.falls_through(s.body), self.falls_through(s.orelse)
        nar = self._narrow(s.test, env)
        if ft_body and ft_else and (rest or True):
            pfx, call = self.join(env, self.assigned(s.body) + self.assigned(s.orelse), after)
            kk = call
        else:
            pfx, kk = "", after
        if nar:
            name, none_first = nar
            env_some = dict(env)
            env_some[name] = env[name][1]
            b_none, b_some = (s.body, s.orelse) if none_first else (s.orelse, s.body)
            t_none = self.block(b_none, env, kk, ctx)
            t_some = self.block(b_some, env_some, kk, ctx)
            return "(%smatch %s with None => %s | Some %s => %s end)" % (pfx, cname(name), t_none, cname(name), t_some)
        c = self.cond(s.test, env)
        t_then = self.block(s.body, env, kk, ctx)
        t_else = self.block(s.orelse, env, kk, ctx)
        return wrap(c.pre, "(%sif %s then %s else %s)" % (pfx, c.text, t_then, t_else))

    def _loop_sig(self, env):
        vs = self.vars_of(env)
        params = " ".join("(%s : %s)" % (cname(v), ty_coq(self.declared(v))) for v in vs)

        def args(e):
            for v in vs:
                if v not in e:
                    _bad("variable %r undefined on a loop back-edge" % v)
            return " ".join(coerce(cname(v), e[v], self.declared(v)) for v in vs)
        env_in = {v: self.declared(v) for v in vs}
        return vs, params, args, env_in

    def _while(self, s, rest, env, k, ctx):
        if s.orelse:
            _bad("while/else", s)
        self.nloop += 1
        idx = self.nloop
        name = "%s_loop%d" % (self.fun.coq, idx)
        if idx not in self.fun.fuel:
            _bad("no fuel expression for loop %d of %s" % (idx, self.fun.qual), s)
        vs, params, args, env_in = self._loop_sig(env)
        after = lambda env2: self.block(rest, env2, k, ctx)   # noqa: E731
        uses_break = any(isinstance(n, ast.Break) for n in ast.walk(s))
        if uses_break:
            kpfx, kcall = self.join(env_in, vs, after)
        else:
            kpfx, kcall = "", after
        ctx2 = dict(ctx)
        ctx2["cont"] = lambda e: "%s fuel %s" % (name, args(e))
        ctx2["brk"] = kcall
        c = self.cond(s.test, env_in)
        body = self.block(s.body, env_in, ctx2["cont"], ctx2)
        text = ("Fixpoint %s (fuel : nat) %s {struct fuel} : result %s :=\n  match fuel with\n  | O => Err OutOfFuel\n"
                "  | S fuel =>\n    %s%s\n  end.\n" % (
                    name, params, ty_coq(self.rty), kpfx,
                    wrap(c.pre, "(if %s then %s else %s)" % (c.text, body, kcall(env_in)))))
        self.defs.append(text)
        return "(%s (%s) %s)" % (name, self.fun.fuel[idx], args(env))

    def _for(self, s, rest, env, k, ctx):
        self.nloop += 1
        idx = self.nloop
        name = "%s_loop%d" % (self.fun.coq, idx)
        after = lambda env2: self.block(rest, env2, k, ctx)   # noqa: E731
        shared = isinstance(s.iter, ast.Name) and s.iter.id in env and isinstance(env[s.iter.id], tuple) \
            and env[s.iter.id][0] == "iter"
        vs, params, args, env_in = self._loop_sig(env)
        if shared:
            ety = env[s.iter.id][1]
        else:
            # the iterable is evaluated once, eagerly: only faithful if the body does not change what is
            # being iterated over — except `N[i] = v` at the current index of `for i, x in enumerate(N)`
            names = {m.id for m in ast.walk(s.iter) if isinstance(m, ast.Name)}
            for nm in names & set(self.assigned(s.body)):
                ok = (isinstance(s.iter, ast.Call) and ast.unparse(s.iter.func) == "enumerate" and len(s.iter.args) == 1
                      and isinstance(s.iter.args[0], ast.Name) and s.iter.args[0].id == nm
                      and isinstance(s.target, ast.Tuple) and isinstance(s.target.elts[0], ast.Name))
                if ok:
                    idxn = s.target.elts[0].id
                    if idxn in self.assigned(s.body):
                        ok = False
                    for m in ast.walk(ast.Module(body=s.body, type_ignores=[])):
                        if isinstance(m, (ast.Assign, ast.AugAssign)):
                            for t in (m.targets if isinstance(m, ast.Assign) else [m.target]):
                                for q in ast.walk(t):
                                    if isinstance(q, ast.Name) and q.id == nm:
                                        if not (isinstance(t, ast.Subscript) and isinstance(t.value, ast.Name) and t.value.id == nm
                                                and isinstance(t.slice, ast.Name) and t.slice.id == idxn):
                                            ok = False
                        if isinstance(m, ast.Call) and isinstance(m.func, ast.Attribute) and isinstance(m.func.value, ast.Name) \
                                and m.func.value.id == nm and m.func.attr in ("append", "pop", "extend", "insert", "write"):
                            ok = False
                if not ok:
                    _bad("the loop body changes %r, which the loop iterates over" % nm, s)
            it = self.expr(s.iter, env)
            ety = self._elem_ty(it.ty, s)
        # target
        env_body = dict(env_in)
        if isinstance(s.target, ast.Name):
            h = self.tmp()
            tty = self.declared(s.target.id, s)
            env_body[s.target.id] = tty
            bind = "let %s := %s in " % (cname(s.target.id), coerce(h, ety, tty, s))
            pat = h
        elif isinstance(s.target, ast.Tuple) and all(isinstance(x, ast.Name) for x in s.target.elts) \
                and isinstance(ety, tuple) and ety[0] == "tuple" and len(ety) - 1 == len(s.target.elts):
            hs, bind = [], ""
            for x, ty in zip(s.target.elts, ety[1:]):
                h = self.tmp()
                hs.append(h)
                dty = self.declared(x.id, s)
                env_body[x.id] = dty
                bind += "let %s := %s in " % (cname(x.id), coerce(h, ty, dty, s))
            pat = "(" + ", ".join(hs) + ")"
        else:
            _bad("for target", s)
        # the loop variable(s) become part of the environment of later iterations/after the loop only if defined before
        uses_break = any(isinstance(n, ast.Break) for n in ast.walk(s))
        k_else = lambda e: self.block(s.orelse, e, after, ctx)   # noqa: E731  (exhausted: else-block, then what follows)
        if uses_break:
            kpfx, kbrk = self.join(env_in, vs, after)
            k_exh = lambda e: self.block(s.orelse, e, kbrk, ctx)   # noqa: E731
        else:
            kpfx, kbrk, k_exh = "", after, k_else
        ctx2 = dict(ctx)
        ctx2["brk"] = kbrk
        if shared:
            if idx not in self.fun.fuel:
                _bad("no fuel expression for loop %d of %s (loop over a shared iterator)" % (idx, self.fun.qual), s)
            itn = cname(s.iter.id)
            ctx2["cont"] = lambda e: "%s fuel %s" % (name, args(e))
            body = self.block(s.body, env_body, ctx2["cont"], ctx2)
            text = ("Fixpoint %s (fuel : nat) %s {struct fuel} : result %s :=\n  match fuel with\n  | O => Err OutOfFuel\n"
                    "  | S fuel =>\n    %smatch %s with\n    | [] => %s\n    | %s :: %s => %s%s\n    end\n  end.\n" % (
                        name, params, ty_coq(self.rty), kpfx, itn, k_exh(env_in), pat, itn, bind, body))
            self.defs.append(text)
            return "(%s (%s) %s)" % (name, self.fun.fuel[idx], args(env))
        itv = "it%d_" % idx
        ctx2["cont"] = lambda e: "%s %s %s" % (name, itv, args(e))
        body = self.block(s.body, env_body, ctx2["cont"], ctx2)
        text = ("Fixpoint %s (%s : list %s) %s {struct %s} : result %s :=\n  %smatch %s with\n  | [] => %s\n  | %s :: %s => %s%s\n  end.\n" % (
            name, itv, ty_coq(ety), params, itv, ty_coq(self.rty), kpfx, itv, k_exh(env_in), pat, itv, bind, body))
        self.defs.append(text)
        return wrap(it.pre, "(%s %s %s)" % (name, it.text, args(env)))

    # ------------------------------------------------------------------
    def translate(self):
        a = self.node.args
        if a.vararg or a.kwarg or a.kwonlyargs or a.posonlyargs:
            _bad("unsupported parameter kinds in %s" % self.fun.qual, self.node)
        # aliasing: `x = y` between mutable lists of which one is later mutated in place cannot be rendered by values
        mutated = set()
        for m in ast.walk(self.node):
            if isinstance(m, ast.Call) and isinstance(m.func, ast.Attribute) and isinstance(m.func.value, ast.Name) \
                    and m.func.attr in ("append", "pop", "extend", "insert", "write", "sort", "reverse", "remove", "clear"):
                mutated.add(m.func.value.id)
            if isinstance(m, (ast.Assign, ast.AugAssign)):
                for t in (m.targets if isinstance(m, ast.Assign) else [m.target]):
                    if isinstance(t, ast.Subscript) and isinstance(t.value, ast.Name):
                        mutated.add(t.value.id)
        for m in ast.walk(self.node):
            if isinstance(m, ast.Assign) and isinstance(m.value, ast.Name) and len(m.targets) == 1 \
                    and isinstance(m.targets[0], ast.Name):
                x, y = m.targets[0].id, m.value.id
                ty = self.decl.get(y)
                if (isinstance(ty, tuple) and ty[0] in ("list", "iter") or ty == "strbuf") and ({x, y} & mutated):
                    _bad("%s = %s aliases a list that is mutated in place" % (x, y), m)
        names = [x.arg for x in a.args]
        if self.fun.skip_first:
            names = names[1:]
        # parameters with defaults may be left out of the spec only if they are trailing (then the default is used)
        spec_names = [p for p, _ in self.fun.params]
        if names[:len(spec_names)] != spec_names:
            _bad("parameters of %s are %r, the spec says %r" % (self.fun.qual, names, spec_names), self.node)
        extra = names[len(spec_names):]
        defaults = dict(zip([x.arg for x in a.args][len(a.args) - len(a.defaults):], a.defaults))
        env = {p: t for p, t in self.fun.params}
        pre_lets = ""
        for x in extra:
            if x not in defaults:
                _bad("parameter %r of %s is not in the spec and has no default" % (x, self.fun.qual), self.node)
            e = self.pure(defaults[x], env, self.declared(x, self.node))
            pfx, env = self.bind(x, e, env, self.node)
            pre_lets += pfx
        if self.fun.generator:
            env["out__"] = ("list", self.fun.ret)
            pre_lets += "let out__ := [] in "

        def k_end(e):
            if self.fun.generator:
                return "Ok out__"
            if self.rty == "unit":
                return "Ok tt"
            _bad("%s may fall off its end (implicit None)" % self.fun.qual, self.node)
        body = self.block(self.node.body, env, k_end, {})
        params = " ".join("(%s : %s)" % (cname(p), ty_coq(t)) for p, t in self.fun.params)
        main = "Definition %s %s : result %s :=\n  %s%s.\n" % (self.fun.coq, params, ty_coq(self.rty), pre_lets, body)
        return "\n".join(self.defs + [main])


def translate_module(repo, mod):
    path = os.path.join(repo, mod.rel)
    with open(path, encoding="utf-8") as f:
        src = f.read()
    tree = ast.parse(src, path)
    out = ["(* GENERATED by harness/py2coq.py from %s — do not edit.  Regenerated on every run. *)\n" % mod.rel,
           "From Verif Require Import Lib.Base Lib.PyStr Lib.Dec Lib.Tr.\n"]
    for imp in mod.imports:
        out.append("From Verif Require Import %s.\n" % imp)
    out.append("Local Open Scope Z_scope.\n\n")
    for qual, expected in mod.regexes:
        if isinstance(expected, tuple):
            expected, exp_flags = expected
        else:
            exp_flags = ""
        got, flags = regex_text(tree, qual)
        if got != expected or flags != exp_flags:
            _bad("pattern %s is %r (flags %r); the hand-written leaf models %r (flags %r)" % (qual, got, flags, expected, exp_flags))
        out.append("(* %s = re.compile(%s%s) — modelled by a hand-written leaf, compared with the live pattern on every run *)\n"
                   % (qual, re.sub(r"\*\)", "* )", repr(got)), (", " + flags) if flags else ""))
    out.append("\n")
    for fun in mod.funs:
        node = find_def(tree, fun.qual)
        tr = FunTr(mod, fun, node)
        out.append("(* %s *)\n" % fun.qual)
        out.append(tr.translate())
        out.append("\n")
    return "".join(out)
