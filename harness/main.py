import argparse
import os
import sys

sys.path.insert(0, os.path.dirname(os.path.dirname(os.path.abspath(__file__))))
repo = os.environ.get("VERIF_REPO", "/repo")
sys.path.insert(0, os.path.join(repo, "lib"))
import warnings  # noqa: E402
warnings.simplefilter("ignore")

from harness import core  # noqa: E402


def main():
    ap = argparse.ArgumentParser()
    ap.add_argument("prop", nargs="?")
    ap.add_argument("--tier", default=os.environ.get("VERIF_TIER", "quick"))
    ap.add_argument("--replay")
    ap.add_argument("--relock", action="store_true")
    ap.add_argument("--build", action="store_true")
    a = ap.parse_args()
    if a.relock:
        core.relock()
        return 0
    if a.build:
        log = {}
        ok = core.build(log)
        if not ok:
            print(log.get("build_error", ""))
        print("gen changed:", log.get("gen_changed"), "gen errors:", log.get("gen_errors"))
        # setup succeeds when everything a registered check needs is built
        import importlib
        import json
        missing = []
        try:
            man = json.load(open(os.path.join(core.VERIF, "MANIFEST.json")))
            for c in man["checks"]:
                mod = importlib.import_module("harness.props." + c["property_id"].lower())
                for rel in (mod.CHECK_MODULE.replace(".", "/") + ".v", mod.PROPS_FILE):
                    if not core.vo_ok(rel):
                        missing.append(rel)
        except Exception as e:
            missing.append("MANIFEST: %r" % e)
        if missing:
            print("build FAILED for registered checks:", missing)
            return 1
        print("build ok" if ok else "build ok for all registered checks (other files failed, see above)")
        return 0
    seed = int(os.environ.get("VERIF_SEED", "20260926"))
    if a.prop == "LIB":
        return core.libcheck(a.tier, seed)
    if a.replay:
        return core.replay(a.prop, a.replay)
    tier = a.tier if a.tier in ("quick", "thorough") else "quick"
    return core.check(a.prop, tier, seed)


if __name__ == "__main__":
    sys.exit(main())
