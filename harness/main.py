import argparse
import os
import sys

sys.path.insert(0, os.path.dirname(os.path.dirname(os.path.abspath(__file__))))
repo = os.environ.get("VERIF_REPO", "/repo")
sys.path.insert(0, os.path.join(repo, "lib"))
import warnings  # noqa: E402
warnings.simplefilter("ignore")

from harness import core  # noqa: E402


def main():
    ap = argparse.ArgumentParser()
    ap.add_argument("prop", nargs="?")
    ap.add_argument("--tier", default=os.environ.get("VERIF_TIER", "quick"))
    ap.add_argument("--replay")
    ap.add_argument("--relock", action="store_true")
    ap.add_argument("--build", action="store_true")
    a = ap.parse_args()
    if a.relock:
        core.relock()
        return 0
    if a.build:
        log = {}
        ok = core.build(log)
        print(log.get("build_error", "") if not ok else "build ok", log.get("gen_changed"), log.get("gen_errors"))
        return 0 if ok else 1
    seed = int(os.environ.get("VERIF_SEED", "20260926"))
    if a.prop == "LIB":
        return core.libcheck(a.tier, seed)
    if a.replay:
        return core.replay(a.prop, a.replay)
    tier = a.tier if a.tier in ("quick", "thorough") else "quick"
    return core.check(a.prop, tier, seed)


if __name__ == "__main__":
    sys.exit(main())
