#!/usr/bin/env python3
"""Writes /verif/MANIFEST.json from the table below (kept next to the checks so the two stay in step)."""
import json
import os

HERE = os.path.dirname(os.path.dirname(os.path.abspath(__file__)))

COMMON_NOTE = ("Trusted: Coq 8.16.1 kernel incl. vm_compute (no native_compute, no extraction); the hand-written "
               "Gallina model is tied to /repo by the correspondence run on every invocation (agree and holds "
               "are both computed inside Coq on what the implementation did) and, for the functions named under TIE BY "
               "REGENERATION, by proved equality with their control flow as regenerated from the source on that run; harness generators/driver/encoder; "
               "coq/Gen regenerated from the source and the running interpreter by harness/extract.py. ")

T = "Coq proof ({how}) + in-Coq differential correspondence"

CHECKS = {
    "C04": dict(
        text="Theorems (Props/C04.v, 5, all Closed under the global context): for EVERY text accepted by the boolean grammar "
             "wf_changelog (deb-changelog(5) as the property words it: any number of blocks, header with distributions, "
             "urgency, optional comment, extra key=value pairs, change lines incl. non-ASCII/#/:/FF, blank lines inside and "
             "between blocks, optional leading blank lines) strict parsing succeeds with NO warning and format = the text "
             "byte for byte, in strict and lenient mode and for the text given as a line list; the parsed blocks expose exactly "
             "the written package, version, distributions, urgency, comment, pairs IN FILE ORDER, changes, author and date.  "
             "Holds for every instance of the 13 junk-line classifiers.  Induction over block and line lists.",
        design="§4 C04",
        note=COMMON_NOTE + "Modelled not verified: the regex leaves topline/endline/changere/keyvalue/value_re etc. (compared per "
             "run with the live compiled patterns, CLeaf cases); file-object input and LF-terminated line lists are compared, "
             "not proved; the public version property is observed by holds, not modelled.  Case text literals are packed into "
             "Uint63 for speed (Check module only; no theorem mentions them).",
        technique=T.format(how="round trip by induction over the grammar's blocks and lines, parametric in 13 classifiers")),
    "C15": dict(
        text="Theorems (Props/C15.v, 7, all Closed under the global context), for EVERY instance of the 13 junk classifiers: the "
             "lenient constructor never raises on any input in any form; strict raises ParseError — and only that — exactly "
             "when lenient warns, and otherwise returns the same object; str() of ANY parsed text re-parses to the identical "
             "object; any in-domain edit script (new_block, add_change, attribute assignment) on the empty changelog or on any "
             "parsed text that can be formatted re-parses to the same blocks (up to the private no-trailer flag, which keeps "
             "all eleven public fields) and formats to the identical text.  Induction over line lists and edit scripts.",
        design="§4 C15",
        note=COMMON_NOTE + "Modelled not verified: regex leaves (CLeaf correspondence); normal-form theorems are for str input with "
             "max_blocks=None (max_blocks=0 with a non-blank leading line is outside the quantifier and stated in ASSUMPTIONS); "
             "edited values are in their documented domains (single-line change text, 'name <mail>' author, RFC-2822-shaped date).",
        technique=T.format(how="totality by a state invariant, strict/lenient by one step function, normal form by induction over edit scripts")),
    "C07": dict(
        text="PARTIAL BY CONSTRUCTION (tarfile and the gz/bz2/xz/lzma codecs are CPython's and are not modelled; they are "
             "exercised by the harness on every run: all 25 compression pairs, member orders, names with spaces, binary "
             "contents, script subsets, the full defective matrix).  What is logic is modelled and proved (Props/C07.v, 20 "
             "theorems, all Closed under the global context), with the constants regenerated from debfile.py "
             "(Gen/DebConsts.v): DebFile opens iff debian-binary is present and exactly one control and exactly one data "
             "candidate name occur, any failure is DebError and never another kind; lookups find the last member of a name; "
             "has_file/get_content answer identically for 'n', './n', '/n'; md5sums() round-trips any list of well-formed "
             "lines incl. names with inner spaces; scripts() is exactly the MAINT_SCRIPTS present; and, under ONE Section "
             "hypothesis (tarfile.open('r:*') of an archived listing returns it), for any members, any of the 25 codec pairs "
             "and any member order everything returned equals what was packed.",
        design="§4 C07",
        note=COMMON_NOTE + "Assumed (Section variable/hypothesis, never an axiom): p_open (arch k v) = Some v — the tar/codec "
             "round trip.  Modelled not verified: os.path.splitext gate proved for the ten candidate names (complete sweep), "
             "Deb822 parsing of the control file is C02's, links/devices in tarballs not modelled.",
        technique=T.format(how="decision-logic iff + round-trip lemmas; runtime parts as Section hypotheses")),
    "C08": dict(
        text="Theorems (Props/C08.v, 13, all Closed under the global context), about Deb822/Model.v's own validate_input, "
             "setitem, dump, iter_paragraphs and regex leaves, over the property's character domain: for every paragraph with "
             "valid distinct names whose values are all accepted, re-reading the dump with whitespace-separates-paragraphs "
             "False gives exactly ONE paragraph with the same names in the same order — as str, bytes and file object — and "
             "the same under the default setting whenever no continuation line is whitespace-only; validate_input rejects "
             "exactly the three stated shapes (both directions) with ValueError and setitem then leaves the mapping unchanged; "
             "an accepted continuation line can match none of _single, _multi, the armour pattern; agree c -> holds c for every "
             "case, so a holds failure always comes with an agree failure.  Induction over field and line lists.",
        design="§4 C08",
        note=COMMON_NOTE + "Modelled not verified: regex leaves (C02's correspondence compares them with the live patterns), "
             "Deb822Dict as association list.  Outside the domain (NBSP, VT, FF, NEL, LS ... in values; names with ':' or a "
             "leading '#') nothing is claimed — the generator's out-of-domain stream still exercises agree there.",
        technique=T.format(how="implication proved by induction over fields/lines on the C02 model")),
    "C17": dict(
        text="Theorems (Props/C17.v, 17, all Closed under the global context): parse_multiline_as_lines(format_multiline_lines ls) "
             "= ls exactly on the stated boolean domain (no line-boundary character; later lines neither whitespace-only nor a "
             "lone '.'; ls <> ['']), with the one edge [''] -> [] stated; the text, License, space-separated and line-based "
             "codecs are inverse on their domains; for ANY sequence of header operations and Files/License paragraph creations "
             "in wf_copyright the document builds, and Copyright(dump) — strict or lax, as str, lines with or without line ends, "
             "or file — equals the built document (same header, same paragraphs, Files first then License, properties equal the "
             "inputs); on the wider domain the document still survives.  The document theorem is proved by COMPOSITION with "
             "C02's dump/parse theorems (Deb822/Proofs.v), not assumed.",
        design="§4 C17",
        note=COMMON_NOTE + "Modelled not verified: every error path (rejected values, strict-mode complaints, Format rewrite/URL "
             "repair) compared only; _CURRENT_FORMAT/_KNOWN_FORMATS regenerated into Gen/CopyrightConsts.v.  Hypothesis: no "
             "Python line-boundary character other than LF in texts (the control-file domain, as C08 words it).",
        technique=T.format(how="inverse laws + composition with the deb822 round-trip theorems")),
    "C05": dict(
        text="Theorems (Props/C05.v, 22, all Closed under the global context): on every valid document and every op list "
             "(set / set_field_to_simple_value / set_field_from_raw_string / delete), each accepted operation is byte-local: "
             "replacing keeps everything before the value (own comment and name as spelled) and after the field; a new field "
             "goes after the paragraph's last field on lines of its own with at most one supplied LF that can only be non-empty "
             "at the very end of the document; delete removes exactly the field's lines; rejected operations change nothing; "
             "validity, paragraph count/order and free text are preserved over ANY history.  parse_dump_abs: for every "
             "well-formed canonical document the REAL parser model of C01 (tokenizer + six stages) run on the dump gives the "
             "document back; hence after any accepted set/setter/delete — and after any history — a FRESH PARSE of the dump "
             "shows the new value under every case spelling, the original spelling of the name, unchanged values and order "
             "elsewhere, and exactly the non-emptied paragraphs in order.",
        design="§4 C05",
        note=COMMON_NOTE + "Modelled not verified: tokenizer leaves (match_field_line, is_ws_line, format_comment) compared per "
             "run.  doc_canon (the item structure a parse produces: no error items, no empty paragraph, canonical blank/comment "
             "runs) is a boolean hypothesis, evaluated by agree on every parsed document.  Operations on paragraphs that still "
             "contain repeated names: index invariant + re-parse (norm_doc) proved, field-level locality compared only.",
        technique=T.format(how="byte-level locality by induction over documents and op lists; printer/parser inverse through the C01 parser model")),
    "C09": dict(
        text="Theorems (Props/C09.v, 11, all Closed under the global context): on a pointer-level model (heap of linked-list nodes, "
             "head/tail/size, OrderedSet table, Deb822Dict) the representation invariant holds after ANY history from empty, "
             "dict-initialised or parsed starts; each of the 14 operations returns what the association-list reference returns "
             "(value / KeyError / ValueError) and the abstraction commutes; an operation that raises leaves every paragraph "
             "unchanged; dump-then-parse is the identity for plain names and single-line values; agree c -> holds c.  "
             "Parametric in the lower-casing function.  Induction over histories.",
        design="§4 C09",
        note=COMMON_NOTE + "Modelled not verified: weak references as plain ids (no GC), Python dict as association list keyed by "
             "the lowered key, sort_fields with its default key only, Deb822(text) start carried as the hypothesis "
             "parse_text text = items (C02's subject); multi-line values through dump/parse are compared per case.",
        technique=T.format(how="refinement of a heap-level doubly linked list to an association list, induction over histories")),
    "C10": dict(
        text="Theorems (Props/C10.v, 18, all Closed under the global context): over any history of order_first/last/"
             "before/after, sort_fields(key=...) for every key of a six-member family (default, len, constant, X- last, first "
             "character, case-sensitive) and generically for ANY key into a total transitive order, indexed and unindexed set/delete, insert/append, the name index equals the filtered "
             "document order in both paragraph classes, so (name,i) is the i-th occurrence in document order; dump = the "
             "reference list's dump and every step is a permitted list outcome; moves and sort are permutations of whole "
             "fields, sort is ordered by the key and STABLE (fields whose keys tie keep their relative order, interleaved "
             "occurrences of a repeated name included); after any exception the fields are unchanged up to the one "
             "supplied final LF, which is exactly one LF at the paragraph's end and only when missing; and "
             "insert_append_no_merge in full: a FRESH PARSE (C01's parser model) of the dump after append/insert has the "
             "paragraphs of the document plus one more equal to the inserted one at the requested position (repeated names "
             "allowed).",
        design="§4 C10",
        note=COMMON_NOTE + "Modelled not verified: OrderedSet/LinkedList at list level here (pointer level is C09's), the text that "
             "p[k]=v builds (C05's), negative insert indices compared only.  Theorems assume ops address existing paragraphs; "
             "no_merge assumes tail_ok (free text at the very end of the document ends with a newline) and a non-empty "
             "inserted paragraph.",
        technique=T.format(how="invariant + refinement to a list-of-fields spec, induction over histories; re-parse via parse_dump_abs")),
    "C11": dict(
        text="Theorems (Props/C11.v, 11, all Closed under the global context): for every value text in the domain and both "
             "interpretations list(view) = split_spec (comment lines dropped, whole text split on the separator, trimmed, empties "
             "dropped); open + reads + close leaves the document byte-identical; for whitespace-separated AND comma-separated "
             "lists any sequence of append/remove/replace — directly or through value references — does exactly the Python "
             "list operation or is refused exactly when it is inapplicable (remove covers every layout: multi-line values, "
             "doubled/leading/trailing commas, comment lines between and inside values, both sides of the _remove_node choice), "
             "and after a successful close the written text is valid, re-parses to itself and reads back as the edited list; a "
             "failing close leaves the text unchanged; the close succeeds whenever the value does not end on a comment line "
             "and the edited list is non-empty; only the value text of that field changes.",
        design="§4 C11",
        note=COMMON_NOTE + "Modelled not verified: the two finditer regex leaves, the shared text-cache slot of "
             "Deb822ParsedValueElement (modelled as the IV flag), append_separator/newline/comment and new values outside "
             "good_value (compared only); value_ok is LF-only; sessions read the list right after opening.  view_edit_local is "
             "true by construction of the model: its tie is the correspondence.",
        technique=T.format(how="refinement of token-list edits to list operations, induction over edit sequences")),
    "C12": dict(
        text="Theorems (Props/C12.v, 21, all Closed under the global context), quantified over the tables REGENERATED from the "
             "source (Gen/MvTables.v): the tables equal the documented ones and are well formed; for every class and field, "
             "get_as_string of any non-empty list of records of non-empty whitespace-free tokens parses back to the same "
             "records in the same order; parsing exposes each line as a record under the documented names; dump is total for "
             "every subset of present structured fields and stays total over any sequence of well-formed in-place edits; the "
             "size column is rjust-ed to width 16 (Release/apt-ftparchive) or the longest size present (Release/dak, "
             "PdiffIndex); the dumped text is the documented text and re-parses to the same paragraph.",
        design="§4 C12",
        note=COMMON_NOTE + "Modelled not verified: the Err branches (zero-record list, dak on a mapping) compared only; the Deb822 "
             "text parser splitting the dump is C02's; names assumed US-ASCII.  The single-line form of a Release field under "
             "dak (not a valid Release file) raises TypeError on dump: modelled, generated, outside the property.",
        technique=T.format(how="round-trip and totality lemmas over the regenerated tables")),
    "C13": dict(
        text="Theorems (Props/C13.v, 7, all Closed under the global context): for every well-formed relation structure (boolean "
             "wf_rels: any number of conjuncts and alternatives, all 2^4 combinations of arch qualifier / version constraint / "
             "arch list / restriction formula) parse_relations(str(rels)) = (rels, 0 warnings), str of that is the identical "
             "string, the Spec judgement used by holds is true of the model, the __dep_RE scanner returns exactly the written "
             "groups on every formatted atom, str is injective on the domain, and every formatted text has exactly one domain "
             "structure behind it, which is what the parser returns (unique readability).  Induction over the structure.",
        design="§4 C13",
        note=COMMON_NOTE + "Modelled not verified: the hand-written scanner for __dep_RE and the separator/restriction patterns "
             "(each compared on every run with the live compiled pattern objects), str.lower as ascii_lower (profiles ASCII), "
             "\\w tabulated below U+3000; warnings compared by count.",
        technique=T.format(how="structural induction over relation structures")),
    "C14": dict(
        text="Theorems (Props/C14.v, 19, all Closed under the global context): Version(s) constructs iff valid_spec s, for ALL "
             "strings over all code points, with ValueError the only error; valid_spec is equivalent to the declarative Policy "
             "grammar; the stored components are the unique decomposition (epoch before the first colon, revision after the "
             "last hyphen), recompose to s, and str() returns s; from any state satisfying the invariant, assigning any "
             "component any value (None/str/int) yields either the object Version(recomposition) would build or ValueError "
             "with the state EQUAL to the one before; lifted to all assignment sequences; agree c -> holds c.  The character "
             "classes are proved against Gen/VersionConsts.v, regenerated from the regex in the source: a widened class, \\d or "
             "$ stops these lemmas compiling.",
        design="§4 C14",
        note=COMMON_NOTE + "Modelled not verified: the regex leaf's lazy/greedy split (proved equal to cutting at the last hyphen); "
             "Version(BaseVersion), __repr__, apt_pkg variant not modelled.",
        technique=T.format(how="iff against a grammar + invariant by induction over assignment sequences; classes regenerated from source")),
    "C19": dict(
        text="Theorems (Props/C19.v, 24, all Closed under the global context; the hash H is universally quantified): for EVERY "
             "environment, local state and fault schedule update_file either returns lines with local = those lines and no "
             ".new, or raises with local exactly as before and no .new (unless the unlink itself was scheduled to fail); with a "
             "publishing index (any field order, extra fields), no faults and no digest collision among the history, from local "
             "at any v_i / current / foreign / absent the result is Ok v_n — the patch chain via C18's theorems, also with the "
             "index given as deb822 text and for the mirror of ANY history; absent / unparseable / structurally unusable index "
             "= full download; a write/rename fault or a bad patch raises safely.  PARTIAL BY CONSTRUCTION: urllib, gzip, the "
             "real file system's behaviour under a fault and process death are not modelled; faults are injected in the "
             "harness process on every run.",
        design="§4 C19",
        note=COMMON_NOTE + "Hash assumptions are explicit hypotheses (boolean no_collision; 'no other content has v_n's digest'), "
             "never axioms.  Not proved: the IdxUnusable rows as one statement ('a usable remainder is still used'); a lying "
             "index has only the safety theorem; theorems assume no stale .new before the call.",
        technique=T.format(how="invariant over all fault schedules; convergence by induction over the patch chain")),
    "C20": dict(
        text="Theorems (Props/C20.v, 21, all Closed under the global context): over any history of reads, inserts of new "
             "packages and derivations, the two indexes stay mutually inverse and all seven query methods agree with the "
             "reference relation — unconditionally for the one-token-repaired insert, and for the code as written exactly "
             "under the side condition excluding the K1 trigger (proved exact: a triggering insert ALWAYS breaks the "
             "invariant; witness kept as inverse_invariant_refuted); off the trigger the two runs coincide; on the heap "
             "(aliasing) layer that agree runs: copy() and every derivation documented as copying are independent of the "
             "original under any interleaving of inserts; agree -> holds on trigger-free histories.  K1 is a KNOWN FINDING "
             "(known_findings.json): the test-suite asserts the defective behaviour, so it cannot be repaired.",
        design="§4 C20",
        note=COMMON_NOTE + "Modelled not verified: parse_tags and facet regex leaves (compared per run); iteration order of "
             "self.db taken from the implementation for facet_collection; set iteration order, pickle, output() out of scope.",
        technique=T.format(how="invariant by induction over operation histories, linear and heap layers")),
    "C02": dict(
        text="Theorems (Props/C02.v, 20, all Closed under the global context): for every valid paragraph (boolean valid_para) "
             "dump is the Policy line list and Deb822/Dsc/Changes(dump d) = the fields with first lines trimmed, in order; for "
             "documents of any number of blocks, each plain or clearsigned, separated by >= 1 blank lines with optional leading "
             "blank lines, iter_paragraphs returns exactly the paragraphs; the five input forms (str, bytes, file, lines with and "
             "without line ends; LF or CRLF; with or without final line end) give the same result; a clearsign envelope is "
             "transparent and the reader stops right behind END; comment lines anywhere — whole comment blocks between blank lines included — are ignored for all three classes "
             "and either strictness (Deb822 additionally on ANY line list); no fuel error is possible.  Induction over field/line/block "
             "lists, no size bound.  Model compared with Deb822/Dsc/Changes constructors, iter_paragraphs and dump on every run.",
        design="§4 C02",
        note=COMMON_NOTE + "Modelled not verified: regex leaves _key_part/_single/_multi/_multidata/_gpgre (compared per run, "
             "incl. leaf sweeps); UTF-8 codec not modelled (bytes inputs are the code points of their decoding; exact for valid "
             "UTF-8 as argued in Deb822/Model.v); _multivalued field names of Dsc/Changes are C12's; apt_pkg path absent.  "
             "For Dsc/Changes the any-line-list form of comments_ignored is not claimed (malformed input: a comment before an envelope whose payload contains a blank line changes the split; stated as an Example).",
        technique="Coq proof (induction over fields/lines/blocks) + in-Coq differential correspondence"),
    "C03": dict(
        text="Theorems (Props/C03.v, 16, all Closed under the global context): for all valid version strings (C14's grammar) "
             "_compare, version_compare and the six operators give exactly dpkg's verdict (Version/Dpkg.v: parseversion + "
             "verrevcmp transcribed from lib/dpkg/version.c), also for any two live objects reached through setattr; the "
             "comparison is total on integer epochs, reflexive, antisymmetric (compare(b,a) = -compare(a,b)), transitive with "
             "inherited strictness, a congruence for equality; exactly one of < == > holds and the six operators are mutually "
             "consistent; compare = 0 <-> identical hash keys, so equal versions hash equal.  Proved via a padded "
             "lexicographic order on a canonical key that both the Python chunk loop and dpkg's character loop compute; all "
             "strings, no length bound.  Model compared with Version ops/hash on every run; the spec is also compared with "
             "/usr/bin/dpkg --compare-versions when installed.",
        design="§4 C03",
        note=COMMON_NOTE + "Modelled not verified: findall(r'\\d+|\\D+') leaf (py_chunks), int(), Python tuple hash modelled as "
             "equality of the hashed key.  verrevcmp termination proved for strings without NUL whose Unicode digits are ASCII "
             "(the validity domain).  Depends on C14's ParseProofs (inv, accepts_iff_valid).",
        technique="Coq proof (both comparison loops compute one lexicographic key order; order laws on the key) + in-Coq differential correspondence + dpkg oracle for the spec"),
    "C06": dict(
        text="Theorems (Props/C06.v, 9, all Closed under the global context): for every list of well-formed members (any number, "
             "any data) and every open mode the archive built from them opens, the listing is exactly the members in order "
             "with name/size/owner/group/mtime, getmember = LAST member of that name or KeyError; one-call simulation between "
             "ArMember.read/readline/readlines/seek/tell and an in-memory file over the member's data for EVERY position of the "
             "shared file handle; hence for every op sequence interleaved across members in any way the observations pass the "
             "same steps_ok judgement that holds applies to the implementation; for ANY archive bytes (malformed included) no "
             "returned byte lies outside [offset, offset+size) of its member; agree c -> holds c on judged cases.  Induction "
             "over member and op lists.  Model compared with ArFile(fileobj=/filename=) and ArMember calls on every run; the "
             "BytesIO spec is compared with io.BytesIO.",
        design="§4 C06",
        note=COMMON_NOTE + "Modelled not verified: the underlying binary file (seek/read/readline/tell past EOF), header slicing "
             "constants from Gen/ArConsts.v (used concretely: a changed constant breaks the proofs rather than re-stating them), "
             "int() of padded decimals.  read(0) (= read all in this API), negative seek targets and whence 3 are compared but "
             "not judged.  Error kinds on malformed archives are compared only.  Name decoding, close/iteration not modelled.",
        technique="Coq proof (simulation against a BytesIO spec, induction over op lists) + in-Coq differential correspondence"),
    "C01": dict(
        text="Theorems (Props/C01.v, 20, all Closed under the global context), for EVERY whitespace class containing LF/SP/TAB "
             "and every pair of field-name classes: on both input forms the tokenizer returns and the token texts concatenate "
             "to the input (form 2: each line + LF); every token of any successful tokenization respects the "
             "_verify_token_text line contract; each of the six grouping stages preserves the token sequence (stage 4 under "
             "the invariant that stages 1-3 establish for every tokenizer output); hence parse_accepting returns a file "
             "element whose dump is the input, never raises on the two forms, and elsewhere raises only what the tokenizer "
             "raises; agree c = true -> holds c = true for every case.  Unbounded line lists (induction).  The model is "
             "compared with tokenize_deb822_file / parse_deb822_file(...).dump() and the element tree on every run.",
        design="§4 C01",
        note=COMMON_NOTE + "Modelled not verified: the regex leaves for _RE_FIELD_LINE and _RE_WHITESPACE_LINE (compared per "
             "run as leaf cases), the generator pipeline collapsed to list functions, bytes input through the harness's UTF-8 "
             "decoding; strict-mode outcome and paragraph class are compared, not proved.  An empty string as a line is "
             "outside both forms (the code raises ValueError for it).",
        technique="Coq proof (induction over line lists / token streams, parametric in the character classes) + in-Coq differential correspondence"),
    "C16": dict(
        text="Theorems (Props/C16.v, 14, all Closed under the global context): for every pattern list that converts, the "
             "expression assembled by globs_to_re (as the code builds it, DOTALL, used with fullmatch) matches a name iff "
             "some pattern glob-matches the WHOLE name ('*' any run incl. '/', '?' one char, backslash escapes * ? \\); a "
             "list converts iff every pattern is well-formed, otherwise exactly MachineReadableFormatError; "
             "find_files_paragraph = index of the LAST matching Files paragraph or None; the files_pattern cache is "
             "transparent over ANY history of assignments/matches/finds.  Unbounded pattern lists, names and histories "
             "(induction).  Model compared with FilesParagraph.matches / Copyright.find_files_paragraph on every run; the "
             "model's regex-fragment semantics is also compared with Python's re on the generated pattern text.",
        design="§4 C16",
        note=COMMON_NOTE + "Modelled not verified: the four-constructor regex fragment semantics standing for Python's re on "
             "the text globs_to_re emits (compared per run), Deb822 field access of FilesParagraph, str.split() of the Files "
             "value.  Spec (textbook glob matcher) compared per run with an independent matcher in the harness.",
        technique="Coq proof (induction over patterns/names/histories) + in-Coq differential correspondence"),
    "C18": dict(
        text="Theorems (Props/C18.v, all Closed under the global context): a script in ed syntax with valid addresses is "
             "applied with ed's semantics; for EVERY alignment of any (old,new) the descending script maps old to new "
             "through the model (str and bytes); bad command / 'a' with range / unterminated block => ValueError after "
             "any well-formed prefix.  Proof is the right level: the quantifier is all line lists and all alignments, "
             "closed by induction.  The model is compared with patch_lines(patches_from_ed_script()) on every run.",
        design="§4 C18",
        note=COMMON_NOTE + "Modelled not verified: regex leaf ^(\\d+)(?:,(\\d+))?([acd])$, Python slice assignment, "
             "generator/in-place interleaving collapsed to the final result. int() digit limit not modelled.",
        technique="Coq proof by induction over scripts/alignments + in-Coq differential correspondence"),
}

PENDING = {}


# Tie by regeneration (harness/py2coq.py): which functions' control flow is regenerated from the source on every run
# and proved equal to the model functions (Props/CxxTie.v).  Appended to the claim of the property.
TIES = {
    "C01": ("Props/C01Tie.v", 3, "tokenize_deb822_file (generator over the buffering line stream: peek/peek_at/takewhile with "
            "the two lambdas asserted literally, enumerate over the shared iterator, the field-name cache as an "
            "association list) — equal to the model tokenizer for EVERY choice of the three character classes, hence "
            "lossless on both input forms", "the two regex leaves (pattern text / generated name classes asserted), token "
            "constructors (= the model's mk_token), BufferingIterator methods (source hash asserted)"),
    "C02": ("Props/C02Tie.v", 17, "Deb822._skip_useless_lines, split_gpg_and_payload (list and threaded-iterator forms), "
            "gpg_stripped_paragraph, validate_input, __setitem__, _internal_parser (fields=None), the constructor path "
            "up to the hand-written except EOFError, get_as_string, _dump_format, _dump_str (guard: distinct keys, "
            "established by the reader and kept by assignment)", "the seven regex leaves (pattern texts asserted), "
            "Deb822Dict get/set/iter as association-list operations, str methods, the codec as identity; dump(fd=...) and "
            "iter_paragraphs are not regenerated"),
    "C04": ("Props/C04Tie.v", 14, "ChangeBlock._format / __str__ / changes / add_change / add_trailing_line, "
            "Changelog._format / __str__ / __init__ / _parse_error and the whole of Changelog.parse_changelog (the "
            "line-by-line state machine: for every prior object state, input form, max_blocks, allow_empty_author, "
            "strict and encoding — same blocks, initial lines and warning kinds, or the same error kind)",
            "the seven interpreted regex leaves (pattern texts and flags asserted) and the thirteen junk patterns as the "
            "model's classifier record, str/list/dict methods, ChangeBlock construction as the model's empty block, "
            "warnings.warn as a recorded kind"),
    "C07": ("Props/C07Tie.v", 20, "DebFile.__init__ with its nested compressed_part_name (which member is the control part, "
            "which the data part, every DebError), DebPart.__normalize_member / has_file / get_file / get_content / "
            "__contains__ / __getitem__, DebControl.scripts / debcontrol / md5sums and the delegating DebFile methods "
            "(over any payload type with the tar/codec oracle of Props/C07.v)", "the ArFile base class over the member "
            "list, tgz() as the model's oracle, sets of names as duplicate-free lists, bytes methods; constants from "
            "Gen/DebConsts.v"),
    "C09": ("Props/C09Tie.v", 40, "the doubly linked list behind the ordered key set, at POINTER LEVEL (heap mode: objects are "
            "references into a threaded heap, attribute reads/writes are heap lookups/updates, Cls(args) allocates): "
            "LinkedListNode (constructor, previous_node getter/setter, link_nodes, _insert_link, insert_before/after, "
            "remove, iter_next), LinkedList (remove_node, append, insert_at_head, insert_node_before/after, "
            "insert_before/after, iter_nodes/__iter__, clear, pop, tail, __len__/__bool__, extend) and OrderedSet (add, "
            "remove, __contains__, __len__, __iter__, extend, _reorder, order_first/last/before/after) — same heap, same "
            "result or same error kind with the same partial effects, mostly with no well-formedness guard",
            "node slots as heap cells with fresh allocation, weak references as ids, the lookup table as the model's "
            "association list keyed by the lowered item, _strI equality as equality of lowered text"),
    "C10": ("Props/C10Tie.v", 31, "the ordering methods of both paragraph classes of _deb822_repro/parsing.py at POINTER LEVEL "
            "(on top of C09's regenerated OrderedSet/LinkedList, not re-translated): order_first/last/before/after, "
            "sort_fields, remove_kvpair_element, _ensure_final_newline, iter_keys, kvpair_count, "
            "contains_kvpair_element of Deb822NoDuplicateFieldsParagraphElement; the same plus _nodes_being_relocated, "
            "_resolve_to_single_node, _regenerate_relative_kvapir_order, _init_kvpair_fields of "
            "Deb822DuplicateFieldsParagraphElement; Deb822FileElement.append and insert — as REFINEMENT theorems: from any "
            "state representing the model's list-level value, the regenerated method ends (normally or by raising, same "
            "error kind) in a state representing the model function's result; every list is representable",
            "_unpack_key, field_name, add_final_newline_if_missing, sorted/key functions as the model's, reversed(), "
            "item observations (source hashes of all of them asserted); set_kvpair_element is not regenerated"),
    "C11": ("Props/C11Tie.v", 27, "the list-view layer: whitespace_split_tokenizer, comma_split_tokenizer and _value_line_tokenizer of "
            "tokens.py (equalities, for all value texts, the token constructors' own checks run through C01's mk_token), and "
            "Deb822ParsedTokenList / ValueReference of parsing.py as REFINEMENTS over C09's regenerated LinkedList: "
            "iteration, append, append_separator / _newline / _comment, replace, remove, _remove_node (both scans, the "
            "head/tail bookkeeping), iter_value_references, and ValueReference resolve / value get / value set / remove "
            "for live and dead references", "the finditer regex leaves, str methods, _render / _value_factory / the "
            "separator factory as the model's functions, isinstance tests, the weak reference as 'alive while linked' "
            "(source hashes asserted); _update_field / __exit__ (the write-back) are not regenerated"),
    "C12": ("Props/C12Tie.v", 18, "_multivalued.get_as_string (the writer), PdiffIndex/Release._fixed_field_lengths and "
            "_get_size_field_length, Release.set_size_field_behavior, _multivalued.__init__ (the reader, on every mapping), "
            "validate_input, is_multi_line and the inherited __setitem__ — for every one of the five classes' tables "
            "(regenerated, Gen/MvTables.v)", "the paragraph object and the dynamic values (str / one mapping / list of "
            "mappings) as the model's types, str/list built-ins, the class dispatch of _fixed_field_lengths, the bound "
            "method updater_method as two hand-written cases"),
    "C13": ("Props/C13Tie.v", 9, "PkgRelation.str with its nested pp_arch / pp_restrictions / pp_atomic_dep, and "
            "PkgRelation.parse_relations with its nested parse_archs / parse_restrictions / parse_rel (warnings as a "
            "threaded counter): same string, same structure and warning count, or same error kind",
            "the six regex leaves (pattern texts asserted), the relation dict as the model's record, str.strip/lower/join, "
            "the two namedtuples"),
    "C14": ("Props/C14Tie.v", 11, "BaseVersion._set_full_version, _update_full_version, __setattr__ (including the "
            "try/except rollback; mutual recursion with _update_full_version on proved-sufficient fuel), __getattr__, "
            "__init__, __str__", "the re_valid_version leaf (pattern text asserted, classes regenerated), str(), the "
            "dynamic getattr/setattr of the three private slots as keyed stores"),
    "C03": ("Props/C03Tie.v", 3, "NativeVersion._order, _version_cmp_string, _version_cmp_part",
            "the four regex leaves and int()"),
    "C05": ("Props/C05Tie.v", 6, "PARTIAL: _format_comment (full), Deb822NoDuplicateFieldsParagraphElement.get_kvpair_element and "
            "set_kvpair_element (full, refinements under C10's representation: replace in place or append behind the "
            "supplied final newline, same KeyError/ValueError; the freshness of the parsed element is proved), and the "
            "text-building layer of __setitem__ and "
            "set_field_to_simple_value (which exact text and comment arguments they hand on, and which values they reject "
            "unchanged — the model's own expressions; theorems named _partial).  set_field_from_raw_string is "
            "regenerated and type-checked on every run but its refinement theorem against set_raw is not proved (draft in "
            "notes/wip); the duplicates class is not tied", "str methods, the one-field "
            "parser call as the model's recogniser, comment elements as their text (source hashes asserted)"),
    "C06": ("Props/C06Tie.v", 9, "ArMember.read, readline, readlines, seek, tell (method mode: the private attributes "
            "are threaded as state, returned on exceptions too; guard: __fp and __fname not both None, established by "
            "from_file and proved invariant)", "seek/read/readline/tell/open of the underlying file object"),
    "C16": ("Props/C16Tie.v", 4, "globs_to_re (pattern text and both flags, FormatError included)",
            "re.escape (table regenerated from the interpreter) and re.compile as identity on the text"),
    "C17": ("Props/C17Tie.v", 14, "_LineBased.from_str/to_str (+ nested helper), _SpaceSeparated.from_str/to_str, "
            "format_multiline(_lines), parse_multiline(_as_lines), _single_line, License.__new__/from_str/to_str",
            "str.strip/split/splitlines/startswith/join (Lib/PyStr.v instantiated as the model does), the \\s leaf, islice"),
    "C18": ("Props/C18Tie.v", 5, "patches_from_ed_script (shared iterator, for/else, yield; str and bytes flavours) "
            "and patch_lines", "the command regex leaf, int() on digit runs, slice assignment"),
}
TIE_TEXT = ("  TIE BY REGENERATION ({file}, {n} more theorems, all Closed under the global context): the control flow of "
            "{funs} is regenerated from the current source on every run by harness/py2coq.py (coq/Gen/Tr*.v) and proved, "
            "for ALL inputs, to return exactly what the model functions above return (no exception the model does not "
            "have, fuel never exhausted); hand-modelled inside: {prims}.")
TIE_NOTE = ("  The translator harness/py2coq.py (rendering of the Python subset, variable types given in the spec) is "
            "trusted for the tie theorems; a failed translation or tie proof is a broken proof obligation and is "
            "reported like one.")


# properties whose anchored functions are tied in another property's tie file
TIES["C20"] = ("Props/C20Tie.v", 55, "the debtags module: parse_tags, read_tag_database(_reversed/_both_ways), reverse, output; "
               "DB.__init__/read/insert (with the known finding K1 reproduced as written)/reverse/copy/reverse_copy, all "
               "queries and iterators, choose_packages(_copy), the six filters, facet_collection — sets as the model's "
               "canonical sets, dicts as insertion-ordered association lists, shared set/dict objects as references into "
               "the model's heap (equal heaps afterwards); each method is exactly the model's hstep case; the guards are "
               "proved reachable for every state of every history; order independence of the set loops proved for every "
               "permutation where it holds (the loops it is only argued for are named in the Props comment)",
               "the two regex leaves, split(', '), the set/dict/heap primitives of the model, callbacks assumed pure")
TIES["C08"] = ("Props/C02Tie.v", 17, "the functions C08 is about — Deb822.validate_input, __setitem__, the reader "
               "(_skip_useless_lines, split_gpg_and_payload, _internal_parser) and the writer (_dump_format, _dump_str) — "
               "shared with C02", "as for C02")
TIES["C15"] = ("Props/C04Tie.v", 14, "the parser and the printer that C15 is about — Changelog.parse_changelog, "
               "_parse_error, ChangeBlock._format, add_change, Changelog._format — shared with C04", "as for C04")
TIES["C19"] = ("Props/C18Tie.v", 5, "patches_from_ed_script and patch_lines, through which update_file applies every "
               "patch — shared with C18 (update_file itself, its I/O and fault handling are not regenerated)",
               "as for C18")


# "agree implies holds" (session 4): on every case of the check on which the implementation behaved like the model,
# the property as holds judges it is true — the formal bridge between the correspondence and the property theorems.
AGREE = {
    "C01": "", "C03": "", "C08": "", "C09": "", "C14": "", "C16": "", "C17": "", "C18": "", "C20": "",
    "C06": " on judged cases (judged_case: the operation sequence stays inside the property's alphabet)",
    "C02": " under a computable side condition (the case type does not tie the written input to the paragraphs it was built from)",
    "C04": " under the computable side condition judged (the input is a form of the text; public version objects "
           "consistent) — true on every generated case; this one theorem depends on the kernel's primitive 63-bit "
           "integers (PrimInt63.int/lsr/land/leb/eqb: the case literals are packed), which Print Assumptions lists",
    "C05": " under a computable side condition (holds also reads the re-parse and the alternative-spelling lookups, "
           "which agree does not compare)",
    "C07": " under the computable side condition judged (the expectation the case carries describes what was packed and "
           "the Deb822 fields of the control file — C02's — read as expected), proved weakest; acceptance/rejection, "
           "DebError only, the spelling clause and the extension gate follow from agree alone",
    "C10": " under the computable side condition judged (initial separators well-formed; the recorded fresh parse of each "
           "dump is the reference read-out; for p[k]=v/append/insert the value-to-field step that is C05's subject) — "
           "the seven structural operations need nothing else; true on all tested corpus and generated cases",
    "C11": " under the computable side condition judged (the dump re-parses without error element; operations and values "
           "inside the proved alphabet) — also stated with a condition on the input only (judged_text)",
    "C12": " under the computable side condition judged (faithful ASCII-name domain; distinct raw keys; the re-parse "
           "of a built object split as documented, which is C02's parser) — true on every sampled generated case",
    "C13": " under the computable side condition judged (the Packages/Sources accessor observation, which the model "
           "does not cover); proved weakest",
    "C15": " under the computable side condition judged (plain line input, max_blocks != 0, consistent public "
           "versions) — true on every generated case; the strictness half needs no condition; PrimInt63 primitives as for C04",
    "C19": " (C19_agree_implies_safe, C19_agree_intact_implies_holds)",
}
AGREE_TEXT = "  BRIDGE: agree c = true -> holds c = true is proved for every case of the check{cond}."


def _count_theorems(rel):
    import re
    try:
        text = open(os.path.join(HERE, "coq", rel), encoding="utf-8").read()
    except OSError:
        return None
    # strip comments
    out, depth, i = [], 0, 0
    while i < len(text):
        if text.startswith("(*", i):
            depth += 1
            i += 2
        elif text.startswith("*)", i) and depth:
            depth -= 1
            i += 2
        else:
            if depth == 0:
                out.append(text[i])
            i += 1
    return len(re.findall(r"^\s*(Theorem|Corollary)\s", "".join(out), re.M))


def main():
    import re
    for pid, c in CHECKS.items():
        n = _count_theorems("Props/%s.v" % pid)
        if n is not None:
            c["text"] = re.sub(r"\(Props/%s\.v, \d+" % pid, "(Props/%s.v, %d" % (pid, n), c["text"])
            if pid in ("C04", "C15"):
                c["text"] = c["text"].replace("all Closed under the global context", "all Closed under the global context "
                                              "except the bridge theorem named below")
        if pid in AGREE:
            c["text"] += AGREE_TEXT.format(cond=AGREE[pid])
    for pid, (f, n, funs, prims) in TIES.items():
        c = CHECKS[pid]
        c["text"] += TIE_TEXT.format(file=f, n=n, funs=funs, prims=prims)
        c["note"] += TIE_NOTE
        c["technique"] += " + control flow regenerated from the source (py2coq) with proved equality to the model"
    props = [json.loads(l) for l in open(os.path.join(HERE, "properties.jsonl"))]
    checks = []
    na = []
    for p in props:
        pid = p["id"]
        if pid in CHECKS:
            c = CHECKS[pid]
            checks.append({
                "property_id": pid,
                "quick_cmd": "./check %s --tier quick" % pid,
                "thorough_cmd": "./check %s --tier thorough" % pid,
                "evidence_file": "/verif/evidence/%s.json" % pid,
                "replay_cmd_template": "./check %s --replay {path}" % pid,
                "engine": "coq-proof+correspondence",
                "level_claimed": {"category": "proof", "text": c["text"], "design_ref": c["design"]},
                "level_note": c["note"],
                "technique": c["technique"],
            })
        else:
            na.append({"property_id": pid,
                       "reason": PENDING.get(pid, "not claimed yet: model/theorems for this property are not built "
                                                  "in this revision (see DESIGN.md §4 for the plan)")})
    m = {
        "version": 1,
        "setup_cmd": "./check --build",
        "hooks": {
            "guard": "PYTHON_DEBIAN_VERIF",
            "enable": "no source hooks are needed: every observation goes through public API or harness-side wrapping; "
                      "./check exports PYTHON_DEBIAN_VERIF=1 for uniformity",
            "baseline_off_cmd": "cd /repo && /venv/bin/python -m pytest -q -p no:cacheprovider",
            "source_commits": [],
            "add_only": True,
        },
        "engines": [{
            "name": "coq-proof+correspondence", "path": "/verif/check",
            "serves_properties": sorted(CHECKS),
            "kind_free_text": "Coq 8.16.1 theorems about an executable Gallina model (coq/), re-checked on every run; "
                              "model tied to /repo by differential evaluation inside Coq of generated cases "
                              "(harness/), plus tables AND the control flow of selected functions regenerated from the source "
                              "(coq/Gen; harness/extract.py, harness/py2coq.py) with proved equality to the model",
        }],
        "checks": checks,
        "notes": "fix: commits in /repo and recorded findings are listed in /verif/known_findings.json; "
                 "DESIGN.md §5 explains each.",
        "not_applicable": na,
    }
    with open(os.path.join(HERE, "MANIFEST.json"), "w") as f:
        json.dump(m, f, indent=1)
        f.write("\n")


if __name__ == "__main__":
    main()
