#!/usr/bin/env python3
"""Writes /verif/MANIFEST.json from the table below (kept next to the checks so the two stay in step)."""
import json
import os

HERE = os.path.dirname(os.path.dirname(os.path.abspath(__file__)))

COMMON_NOTE = ("Trusted: Coq 8.16.1 kernel incl. vm_compute (no native_compute, no extraction); the hand-written "
               "Gallina model is tied to /repo only by the correspondence run on every invocation (agree and holds "
               "are both computed inside Coq on what the implementation did); harness generators/driver/encoder; "
               "coq/Gen regenerated from the source and the running interpreter by harness/extract.py. ")

CHECKS = {
    "C02": dict(
        text="Theorems (Props/C02.v, 18, all Closed under the global context): for every valid paragraph (boolean valid_para) "
             "dump is the Policy line list and Deb822/Dsc/Changes(dump d) = the fields with first lines trimmed, in order; for "
             "documents of any number of blocks, each plain or clearsigned, separated by >= 1 blank lines with optional leading "
             "blank lines, iter_paragraphs returns exactly the paragraphs; the five input forms (str, bytes, file, lines with and "
             "without line ends; LF or CRLF; with or without final line end) give the same result; a clearsign envelope is "
             "transparent and the reader stops right behind END; comment lines anywhere are ignored (Deb822: on ANY line list; "
             "Dsc/Changes: in the stated positions); iter_paragraphs never runs out of fuel.  Induction over field/line/block "
             "lists, no size bound.  Model compared with Deb822/Dsc/Changes constructors, iter_paragraphs and dump on every run.",
        design="§4 C02",
        note=COMMON_NOTE + "Modelled not verified: regex leaves _key_part/_single/_multi/_multidata/_gpgre (compared per run, "
             "incl. leaf sweeps); UTF-8 codec not modelled (bytes inputs are the code points of their decoding; exact for valid "
             "UTF-8 as argued in Deb822/Model.v); _multivalued field names of Dsc/Changes are C12's; apt_pkg path absent.  "
             "Dsc/Changes comment handling is stated for the positions listed in C02_comments_ignored_dsc_changes.",
        technique="Coq proof (induction over fields/lines/blocks) + in-Coq differential correspondence"),
    "C03": dict(
        text="Theorems (Props/C03.v, 16, all Closed under the global context): for all valid version strings (C14's grammar) "
             "_compare, version_compare and the six operators give exactly dpkg's verdict (Version/Dpkg.v: parseversion + "
             "verrevcmp transcribed from lib/dpkg/version.c), also for any two live objects reached through setattr; the "
             "comparison is total on integer epochs, reflexive, antisymmetric (compare(b,a) = -compare(a,b)), transitive with "
             "inherited strictness, a congruence for equality; exactly one of < == > holds and the six operators are mutually "
             "consistent; compare = 0 <-> identical hash keys, so equal versions hash equal.  Proved via a padded "
             "lexicographic order on a canonical key that both the Python chunk loop and dpkg's character loop compute; all "
             "strings, no length bound.  Model compared with Version ops/hash on every run; the spec is also compared with "
             "/usr/bin/dpkg --compare-versions when installed.",
        design="§4 C03",
        note=COMMON_NOTE + "Modelled not verified: findall(r'\\d+|\\D+') leaf (py_chunks), int(), Python tuple hash modelled as "
             "equality of the hashed key.  verrevcmp termination proved for strings without NUL whose Unicode digits are ASCII "
             "(the validity domain).  Depends on C14's ParseProofs (inv, accepts_iff_valid).",
        technique="Coq proof (both comparison loops compute one lexicographic key order; order laws on the key) + in-Coq differential correspondence + dpkg oracle for the spec"),
    "C06": dict(
        text="Theorems (Props/C06.v, 9, all Closed under the global context): for every list of well-formed members (any number, "
             "any data) and every open mode the archive built from them opens, the listing is exactly the members in order "
             "with name/size/owner/group/mtime, getmember = LAST member of that name or KeyError; one-call simulation between "
             "ArMember.read/readline/readlines/seek/tell and an in-memory file over the member's data for EVERY position of the "
             "shared file handle; hence for every op sequence interleaved across members in any way the observations pass the "
             "same steps_ok judgement that holds applies to the implementation; for ANY archive bytes (malformed included) no "
             "returned byte lies outside [offset, offset+size) of its member; agree c -> holds c on judged cases.  Induction "
             "over member and op lists.  Model compared with ArFile(fileobj=/filename=) and ArMember calls on every run; the "
             "BytesIO spec is compared with io.BytesIO.",
        design="§4 C06",
        note=COMMON_NOTE + "Modelled not verified: the underlying binary file (seek/read/readline/tell past EOF), header slicing "
             "constants from Gen/ArConsts.v (used concretely: a changed constant breaks the proofs rather than re-stating them), "
             "int() of padded decimals.  read(0) (= read all in this API), negative seek targets and whence 3 are compared but "
             "not judged.  Error kinds on malformed archives are compared only.  Name decoding, close/iteration not modelled.",
        technique="Coq proof (simulation against a BytesIO spec, induction over op lists) + in-Coq differential correspondence"),
    "C01": dict(
        text="Theorems (Props/C01.v, 20, all Closed under the global context), for EVERY whitespace class containing LF/SP/TAB "
             "and every pair of field-name classes: on both input forms the tokenizer returns and the token texts concatenate "
             "to the input (form 2: each line + LF); every token of any successful tokenization respects the "
             "_verify_token_text line contract; each of the six grouping stages preserves the token sequence (stage 4 under "
             "the invariant that stages 1-3 establish for every tokenizer output); hence parse_accepting returns a file "
             "element whose dump is the input, never raises on the two forms, and elsewhere raises only what the tokenizer "
             "raises; agree c = true -> holds c = true for every case.  Unbounded line lists (induction).  The model is "
             "compared with tokenize_deb822_file / parse_deb822_file(...).dump() and the element tree on every run.",
        design="§4 C01",
        note=COMMON_NOTE + "Modelled not verified: the regex leaves for _RE_FIELD_LINE and _RE_WHITESPACE_LINE (compared per "
             "run as leaf cases), the generator pipeline collapsed to list functions, bytes input through the harness's UTF-8 "
             "decoding; strict-mode outcome and paragraph class are compared, not proved.  An empty string as a line is "
             "outside both forms (the code raises ValueError for it).",
        technique="Coq proof (induction over line lists / token streams, parametric in the character classes) + in-Coq differential correspondence"),
    "C16": dict(
        text="Theorems (Props/C16.v, 14, all Closed under the global context): for every pattern list that converts, the "
             "expression assembled by globs_to_re (as the code builds it, DOTALL, used with fullmatch) matches a name iff "
             "some pattern glob-matches the WHOLE name ('*' any run incl. '/', '?' one char, backslash escapes * ? \\); a "
             "list converts iff every pattern is well-formed, otherwise exactly MachineReadableFormatError; "
             "find_files_paragraph = index of the LAST matching Files paragraph or None; the files_pattern cache is "
             "transparent over ANY history of assignments/matches/finds.  Unbounded pattern lists, names and histories "
             "(induction).  Model compared with FilesParagraph.matches / Copyright.find_files_paragraph on every run; the "
             "model's regex-fragment semantics is also compared with Python's re on the generated pattern text.",
        design="§4 C16",
        note=COMMON_NOTE + "Modelled not verified: the four-constructor regex fragment semantics standing for Python's re on "
             "the text globs_to_re emits (compared per run), Deb822 field access of FilesParagraph, str.split() of the Files "
             "value.  Spec (textbook glob matcher) compared per run with an independent matcher in the harness.",
        technique="Coq proof (induction over patterns/names/histories) + in-Coq differential correspondence"),
    "C18": dict(
        text="Theorems (Props/C18.v, all Closed under the global context): a script in ed syntax with valid addresses is "
             "applied with ed's semantics; for EVERY alignment of any (old,new) the descending script maps old to new "
             "through the model (str and bytes); bad command / 'a' with range / unterminated block => ValueError after "
             "any well-formed prefix.  Proof is the right level: the quantifier is all line lists and all alignments, "
             "closed by induction.  The model is compared with patch_lines(patches_from_ed_script()) on every run.",
        design="§4 C18",
        note=COMMON_NOTE + "Modelled not verified: regex leaf ^(\\d+)(?:,(\\d+))?([acd])$, Python slice assignment, "
             "generator/in-place interleaving collapsed to the final result. int() digit limit not modelled.",
        technique="Coq proof by induction over scripts/alignments + in-Coq differential correspondence"),
}

PENDING = {}


def main():
    props = [json.loads(l) for l in open(os.path.join(HERE, "properties.jsonl"))]
    checks = []
    na = []
    for p in props:
        pid = p["id"]
        if pid in CHECKS:
            c = CHECKS[pid]
            checks.append({
                "property_id": pid,
                "quick_cmd": "./check %s --tier quick" % pid,
                "thorough_cmd": "./check %s --tier thorough" % pid,
                "evidence_file": "/verif/evidence/%s.json" % pid,
                "replay_cmd_template": "./check %s --replay {path}" % pid,
                "engine": "coq-proof+correspondence",
                "level_claimed": {"category": "proof", "text": c["text"], "design_ref": c["design"]},
                "level_note": c["note"],
                "technique": c["technique"],
            })
        else:
            na.append({"property_id": pid,
                       "reason": PENDING.get(pid, "not claimed yet: model/theorems for this property are not built "
                                                  "in this revision (see DESIGN.md §4 for the plan)")})
    m = {
        "version": 1,
        "setup_cmd": "./check --build",
        "hooks": {
            "guard": "PYTHON_DEBIAN_VERIF",
            "enable": "no source hooks are needed: every observation goes through public API or harness-side wrapping; "
                      "./check exports PYTHON_DEBIAN_VERIF=1 for uniformity",
            "baseline_off_cmd": "cd /repo && /venv/bin/python -m pytest -q -p no:cacheprovider",
            "source_commits": [],
            "add_only": True,
        },
        "engines": [{
            "name": "coq-proof+correspondence", "path": "/verif/check",
            "serves_properties": sorted(CHECKS),
            "kind_free_text": "Coq 8.16.1 theorems about an executable Gallina model (coq/), re-checked on every run; "
                              "model tied to /repo by differential evaluation inside Coq of generated cases "
                              "(harness/), plus tables regenerated from the source (coq/Gen)",
        }],
        "checks": checks,
        "notes": "fix: commits in /repo and recorded findings are listed in /verif/known_findings.json; "
                 "DESIGN.md §5 explains each.",
        "not_applicable": na,
    }
    with open(os.path.join(HERE, "MANIFEST.json"), "w") as f:
        json.dump(m, f, indent=1)
        f.write("\n")


if __name__ == "__main__":
    main()
