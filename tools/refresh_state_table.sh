#!/bin/sh
# rewrites the table of DESIGN.md §10.9 between its markers from tools/state_table.py
cd "$(dirname "$0")/.."
python3 tools/state_table.py > /tmp/state.$$.md
python3 - "$$" <<'PY'
import sys
p = "DESIGN.md"
s = open(p).read()
t = open("/tmp/state.%s.md" % sys.argv[1]).read()
i = s.index("<!-- state-table-begin -->") + len("<!-- state-table-begin -->\n")
j = s.index("<!-- state-table-end -->")
open(p, "w").write(s[:i] + t + s[j:])
PY
rm -f /tmp/state.$$.md
