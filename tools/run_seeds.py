#!/usr/bin/env python3
"""Runs every kept seeded change (seeded/<Cxx-i>/patch.diff) against its property's quick check in a
scratch worktree and writes seeded/RESULTS.md.  Usage: tools/run_seeds.py [Cxx ...]"""
import json
import os
import re
import subprocess
import sys

HERE = os.path.dirname(os.path.dirname(os.path.abspath(__file__)))


def main():
    want = set(a.upper() for a in sys.argv[1:])
    rows = []
    results_path = os.path.join(HERE, "seeded", "RESULTS.json")
    try:
        results = json.load(open(results_path))
    except Exception:
        results = {}
    only_missing = os.environ.get("SEEDS_ONLY_MISSING") == "1"
    jobs = []
    for name in sorted(os.listdir(os.path.join(HERE, "seeded"))):
        d = os.path.join(HERE, "seeded", name)
        if not os.path.isdir(d):
            continue
        prop = name.split("-")[0]
        if want and prop not in want and name not in want:
            continue
        if only_missing and name in results:
            continue
        if not os.path.exists(os.path.join(HERE, "harness", "props", prop.lower() + ".py")):
            continue
        jobs.append((name, prop, d))

    def run(job):
        name, prop, d = job
        p = subprocess.run([os.path.join(HERE, "tools", "try_patch.sh"), prop, os.path.join(d, "patch.diff")],
                           stdout=subprocess.PIPE, stderr=subprocess.STDOUT, text=True,
                           env=dict(os.environ, VERIF_JOBS=os.environ.get("VERIF_JOBS", "8")))
        out = p.stdout
        vio = re.findall(r"^VIOLATION .*$", out, re.M)
        summ = json.load(open(os.path.join(d, "meta.json"))).get("summary", "")
        applies = "patch does not apply" not in out and "error: patch failed" not in out
        return name, {"property": prop, "caught": bool(vio), "violation_lines": [v.replace(HERE, "/verif") for v in vio][:3],
                      "no_failing_input": any("no-failing-input-found" in v for v in vio) and all("no-failing-input-found" in v for v in vio),
                      "patch_applies": applies,
                      "summary": summ, "last_line": out.strip().splitlines()[-2] if len(out.strip().splitlines()) > 1 else out.strip()}

    import concurrent.futures
    with concurrent.futures.ThreadPoolExecutor(max_workers=int(os.environ.get("SEEDS_PAR", "1"))) as ex:
        for name, r in ex.map(run, jobs):
            results[name] = r
            print(name, ("CAUGHT" if r["caught"] else "MISSED") + ("" if r["patch_applies"] else " (PATCH DOES NOT APPLY)"), flush=True)
            json.dump(results, open(results_path, "w"), indent=1, sort_keys=True)
    json.dump(results, open(results_path, "w"), indent=1, sort_keys=True)
    with open(os.path.join(HERE, "seeded", "RESULTS.md"), "w") as f:
        f.write("# Seeded changes and what the quick checks report on them\n\n"
                "Each change was written by an independent sub-agent that saw only the property text; it compiles, "
                "passes the 234 existing tests and breaks the property (confirmed by tools/verify_seed.sh).  "
                "Result of `tools/try_patch.sh <prop> seeded/<name>/patch.diff` (quick tier):\n\n"
                "| seed | property | result | change |\n|---|---|---|---|\n")
        for name in sorted(results):
            r = results[name]
            res = "patch no longer applies" if not r.get("patch_applies", True) else "MISSED" if not r["caught"] else ("caught, no-failing-input-found" if r["no_failing_input"] else "caught with failing input")
            f.write("| %s | %s | %s | %s |\n" % (name, r["property"], res, r["summary"].replace("|", "/")))


if __name__ == "__main__":
    main()
