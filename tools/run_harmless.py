#!/usr/bin/env python3
"""Runs every behaviour-preserving refactoring under harmless/<name>/patch.diff against the quick checks of the
properties whose anchored files it touches (tools/try_patch.sh, scratch worktree) and writes harmless/RESULTS.json/.md.
A check must NOT print a VIOLATION that names a failing input on these; `no-failing-input-found` (broken
correspondence/proof tie without a property failure) is reported separately.  Usage: tools/run_harmless.py [name ...]"""
import concurrent.futures, json, os, re, subprocess, sys
HERE = os.path.dirname(os.path.dirname(os.path.abspath(__file__)))
FILEMAP = [("debian_support.py", ["C03", "C14", "C18", "C19"]), ("deb822.py", ["C02", "C08", "C09", "C12", "C13", "C17"]),
           ("arfile.py", ["C06", "C07"]), ("debfile.py", ["C07"]), ("copyright.py", ["C16", "C17"]), ("debtags.py", ["C20"]),
           ("changelog.py", ["C04", "C15"]), ("_deb822_repro/", ["C01", "C05", "C10", "C11"]), ("debian/_util.py", ["C09", "C10", "C01"])]

def props_of(patch):
    files = re.findall(r"^\+\+\+ b/(\S+)", open(patch).read(), re.M)
    out = []
    for f in files:
        for key, ps in FILEMAP:
            if key in f:
                out += [p for p in ps if p not in out]
    return out

def run(job):
    name, prop = job
    p = subprocess.run([os.path.join(HERE, "tools", "try_patch.sh"), prop, os.path.join(HERE, "harmless", name, "patch.diff")],
                       stdout=subprocess.PIPE, stderr=subprocess.STDOUT, text=True,
                       env=dict(os.environ, VERIF_JOBS=os.environ.get("VERIF_JOBS", "5")))
    vio = re.findall(r"^VIOLATION .*$", p.stdout, re.M)
    summ = [l for l in p.stdout.splitlines() if re.match(r"C\d\d (quick|thorough):", l)]
    return name, prop, {"alarm_with_input": [v for v in vio if "no-failing-input-found" not in v],
                        "tie_broken_only": [v for v in vio if "no-failing-input-found" in v],
                        "summary": summ[-1] if summ else p.stdout[-300:]}

def main():
    want = set(sys.argv[1:])
    names = [n for n in sorted(os.listdir(os.path.join(HERE, "harmless"))) if os.path.isdir(os.path.join(HERE, "harmless", n)) and (not want or n in want)]
    jobs = [(n, p) for n in names for p in props_of(os.path.join(HERE, "harmless", n, "patch.diff"))]
    rp = os.path.join(HERE, "harmless", "RESULTS.json")
    try:
        res = json.load(open(rp))
    except Exception:
        res = {}
    with concurrent.futures.ThreadPoolExecutor(max_workers=int(os.environ.get("HARMLESS_PAR", "3"))) as ex:
        for name, prop, r in ex.map(run, jobs):
            res.setdefault(name, {})[prop] = r
            print(name, prop, "FALSE-ALARM" if r["alarm_with_input"] else ("tie-broken" if r["tie_broken_only"] else "quiet"), flush=True)
            json.dump(res, open(rp, "w"), indent=1, sort_keys=True)
    with open(os.path.join(HERE, "harmless", "RESULTS.md"), "w") as f:
        f.write("# Behaviour-preserving refactorings and what the quick checks say on them\n\n| change | property | result | summary line |\n|---|---|---|---|\n")
        for n in sorted(res):
            for p in sorted(res[n]):
                r = res[n][p]
                f.write("| %s | %s | %s | %s |\n" % (n, p, "FALSE ALARM (names an input)" if r["alarm_with_input"] else ("proof/correspondence tie broken, no failing input" if r["tie_broken_only"] else "quiet (exit 0)"), r["summary"].replace("|", "/")))
main()
