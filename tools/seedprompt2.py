#!/usr/bin/env python3
"""Round-2 seeding prompt: like seedprompt.py, plus the one-line summaries of the round-1 changes (so the new ones differ).
Still contains nothing about how /verif checks anything."""
import json, os, sys, glob
sys.path.insert(0, os.path.dirname(os.path.abspath(__file__)))
import seedprompt
pid = sys.argv[1]
rnd = sys.argv[2] if len(sys.argv) > 2 else '2'
base = seedprompt.prompt(pid).replace('/tmp/seed-%s' % pid.lower(), '/tmp/seed%s-%s' % (rnd, pid.lower()))
prev = []
for d in sorted(glob.glob('/verif/seeded/%s-*/meta.json' % pid)):
    prev.append('- ' + json.load(open(d)).get('summary', '')[:400])
extra = ('\n\nThese changes were already made by someone else; yours must be DIFFERENT in kind and location (do not repeat them or close variants):\n'
         + '\n'.join(prev) +
         '\n\nAim for the subtle end: state that leaks between calls or objects, caches that go stale, an ordering or tie-break that only matters for particular data, '
         'an off-by-one at an unusual boundary, a condition that is only wrong for one combination of options, error paths that leave partial effects, '
         'behaviour that differs between equivalent input forms. Name the output directories 1, 2, 3 as before.')
print(base.replace('\n\nTask: produce THREE', extra + '\n\nTask: produce THREE'))
