#!/bin/sh
# tools/verify_seed.sh <dir with patch.diff demo.py meta.json> <dest name under /verif/seeded>
# Confirms in a scratch worktree: demo passes on the clean tree; with the patch the 234-test suite still passes and the demo fails.
# On success copies the three files to /verif/seeded/<dest>/ and appends what was run to meta.json.
src=$(readlink -f "$1"); dest=$2
here=$(cd "$(dirname "$0")/.." && pwd)
wt=$(mktemp -d /tmp/vseed-XXXXXX); rmdir "$wt"
git -C /repo worktree add -q --detach "$wt" HEAD || exit 2
trap 'git -C /repo worktree remove --force "$wt" >/dev/null 2>&1 || rm -rf "$wt"' EXIT
cd "$wt"
PYTHONDONTWRITEBYTECODE=1 PYTHONPATH="$wt/lib" timeout 300 /venv/bin/python "$src/demo.py" >/tmp/vseed.clean.$$ 2>&1; c=$?
git apply "$src/patch.diff" || { echo "patch does not apply"; exit 2; }
t=$(PYTHONDONTWRITEBYTECODE=1 timeout 900 /venv/bin/python -m pytest -q -p no:cacheprovider 2>&1 | tail -1)
PYTHONDONTWRITEBYTECODE=1 PYTHONPATH="$wt/lib" timeout 300 /venv/bin/python "$src/demo.py" >/tmp/vseed.mut.$$ 2>&1; m=$?
echo "clean demo exit=$c ; tests with patch: $t ; demo with patch exit=$m"
tail -3 /tmp/vseed.mut.$$
rm -f /tmp/vseed.clean.$$ /tmp/vseed.mut.$$
case "$t" in *"234 passed"*) ok=1;; *) ok=0;; esac
if [ "$c" = 0 ] && [ "$m" != 0 ] && [ "$ok" = 1 ]; then
  mkdir -p "$here/seeded/$dest"
  cp "$src/patch.diff" "$src/demo.py" "$here/seeded/$dest/"
  /venv/bin/python - "$src/meta.json" "$here/seeded/$dest/meta.json" "$t" <<'PY'
import json, sys
m = json.load(open(sys.argv[1]))
m["confirmed_by_integrator"] = {"clean_demo_exit": 0, "tests_with_patch": sys.argv[3], "demo_with_patch": "non-zero exit",
                                "how": "tools/verify_seed.sh in a scratch worktree of /repo HEAD"}
json.dump(m, open(sys.argv[2], "w"), indent=1)
PY
  echo "KEPT as seeded/$dest"
else
  echo "REJECTED"
  exit 1
fi
