#!/usr/bin/env python3
"""Prints the prompt given to an independent sub-agent that seeds breaking changes for one property.
The prompt contains ONLY the property text and the path of its scratch worktree (nothing from /verif)."""
import json
import sys

props = {json.loads(l)['id']: json.loads(l) for l in open('/verif/properties.jsonl')}


def prompt(pid, n=3):
    p = props[pid]
    wt = '/tmp/seed-%s' % pid.lower()
    return f'''You are testing how well a property of a Python library is protected. You work ONLY inside the scratch git worktree {wt} (a checkout of the python-debian library; the package is under lib/debian, tests under lib/debian/tests). Do not read or write anything under /verif or /repo, and do not look for other people's verification material: your work must be independent.

The property ("{p['title']}"), concerning {', '.join(p['anchors']['files'])}:

"{p['statement']}"

It is quantified over: {p['quantifier']['text']}

Task: produce THREE different, realistic changes to the library source (each one separately, as its own patch against the clean worktree) that BREAK this property while the code still imports and the existing test suite still passes completely. Run the suite with: cd {wt} && /venv/bin/python -m pytest -q -p no:cacheprovider lib/debian/tests (it must still report 234 passed for each change). Prefer changes that look like plausible refactorings, optimisations or "fixes" a maintainer might make, and that need something specific to manifest — an unusual input, a particular position or boundary, a particular interleaving or multi-step sequence of operations, a fault at a particular point, or two cooperating sites that each look fine alone — NOT ones that ordinary use would expose at once. Make the three changes different in kind and located in different functions where possible.

For each change i = 1..3 write into {wt}-out/<i>/ : patch.diff (output of `git diff` for that change alone, relative to the clean worktree, applicable with `git apply` from the repository root), demo.py (a small standalone program run as `PYTHONPATH=<repo>/lib /venv/bin/python demo.py` — it must NOT hard-code the worktree path; import the library via PYTHONPATH only — that exits 0 on the original code and exits non-zero, printing what went wrong, with the change applied), and meta.json ({{"property": "{pid}", "summary": one sentence, "needs": what specific input/sequence/fault is needed for it to manifest, "files": [...], "ran": the commands you ran and their results}}). Verify each yourself: apply the patch, run the full test suite (234 passed), run demo.py (must fail), then `git checkout -- .` and run demo.py again (must pass). Leave the worktree clean (git status empty) when you finish. Final message: a short list of the three changes and confirmation of what you verified.'''


if __name__ == '__main__':
    print(prompt(sys.argv[1]))
