#!/bin/sh
# tools/take_seeds.sh <Cxx> <round dir prefix, e.g. /tmp/seed3-c07> <first index>: verify the three changes, keep them as
# seeded/Cxx-<n>, remove the scratch worktree, then run the property's quick check on each (scratch worktree)
prop=$1; pre=$2; n=$3
cd "$(dirname "$0")/.."
for i in 1 2 3; do
  tools/verify_seed.sh "$pre-out/$i" "$prop-$((n+i-1))" 2>&1 | tail -1
done
git -C /repo worktree remove --force "$pre" 2>/dev/null; rm -rf "$pre-out"
for i in 1 2 3; do
  k=$((n+i-1))
  [ -d "seeded/$prop-$k" ] || continue
  echo "--- $prop-$k"
  VERIF_JOBS=${VERIF_JOBS:-4} tools/try_patch.sh "$prop" "seeded/$prop-$k/patch.diff" 2>&1 | grep -E "VIOLATION|MACHINERY|quick:" | cut -c1-230
done
