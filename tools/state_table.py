#!/usr/bin/env python3
"""Prints the per-property state table used in DESIGN.md §10.8 from what is in the tree:
theorem counts (coq/Props/Cxx.v, the property's TIE_FILE), the bridge theorem, the evidence of the last run and
seeded/RESULTS.json."""
import json
import os
import re
import sys

HERE = os.path.dirname(os.path.dirname(os.path.abspath(__file__)))
sys.path.insert(0, HERE)


def strip_comments(text):
    out, depth, i = [], 0, 0
    while i < len(text):
        if text.startswith("(*", i):
            depth += 1
            i += 2
        elif text.startswith("*)", i) and depth:
            depth -= 1
            i += 2
        else:
            if depth == 0:
                out.append(text[i])
            i += 1
    return "".join(out)


def theorems(rel):
    try:
        t = strip_comments(open(os.path.join(HERE, "coq", rel), encoding="utf-8").read())
    except OSError:
        return []
    return re.findall(r"^\s*(?:Theorem|Corollary)\s+([A-Za-z0-9_']+)", t, re.M)


def main():
    try:
        seeds = json.load(open(os.path.join(HERE, "seeded", "RESULTS.json")))
    except Exception:
        seeds = {}
    print("| prop | theorems | tie file (theorems) | bridge | quick: cases / non-trivial | seeded changes: with input / tie only / missed |")
    print("|---|---|---|---|---|---|")
    for i in range(1, 21):
        pid = "C%02d" % i
        src = open(os.path.join(HERE, "harness", "props", pid.lower() + ".py"), encoding="utf-8").read()
        m = re.search(r'^\s*TIE_FILE\s*=\s*"([^"]+)"', src, re.M)
        tie = m.group(1) if m else None
        th = theorems("Props/%s.v" % pid)
        bridge = [t for t in th if "agree_implies" in t or "agree_intact" in t]
        text = strip_comments(open(os.path.join(HERE, "coq", "Props", pid + ".v"), encoding="utf-8").read())
        cond = ""
        for b in bridge[:1]:
            mm = re.search(r"Theorem\s+%s\s*:(.*?)\.\s*Proof" % re.escape(b), text, re.S)
            if mm and "judged" in mm.group(1):
                cond = " (judged)"
        try:
            ev = json.load(open(os.path.join(HERE, "evidence", pid + ".json")))["coverage"]
            cases = "%d / %d" % (ev["evaluations"], ev["distinct_nontrivial"])
        except Exception:
            cases = "?"
        mine = {k: v for k, v in seeds.items() if k.startswith(pid + "-")}
        wi = sum(1 for v in mine.values() if v["caught"] and not v.get("no_failing_input"))
        to = sum(1 for v in mine.values() if v["caught"] and v.get("no_failing_input"))
        mi = sum(1 for v in mine.values() if not v["caught"])
        print("| %s | %d | %s | %s | %s | %s |" % (
            pid, len(th), "%s (%d)" % (tie, len(theorems(tie))) if tie else "—",
            (bridge[0].split("_", 1)[1] + cond) if bridge else "—", cases,
            "%d / %d / %d" % (wi, to, mi) if mine else "?"))


if __name__ == "__main__":
    main()
