#!/bin/sh
# tools/commit.sh "message" — commit /verif only when MANIFEST and every claimed evidence file are present and valid
# (a check that is running has removed its evidence file: restore the committed one rather than commit its absence).
cd "$(dirname "$0")/.."
for f in $(git ls-files --deleted evidence); do git checkout -- "$f"; done
python3 tools/mkmanifest.py || exit 1
python3-vt tools/validate.py > /tmp/validate.$$ 2>&1 || { cat /tmp/validate.$$; rm -f /tmp/validate.$$; echo "NOT COMMITTED"; exit 1; }
rm -f /tmp/validate.$$
git add -A && git commit -qm "$1" && echo "committed: $1"
