#!/usr/bin/env python3
"""Validates MANIFEST.json and every evidence file against the schemas in /root/.vp (run with python3-vt)."""
import json, sys, os, glob
import jsonschema
ok = True
man = json.load(open('/verif/MANIFEST.json'))
try:
    jsonschema.validate(man, json.load(open('/root/.vp/MANIFEST.schema.json')))
    print('MANIFEST ok: claimed', [c['property_id'] for c in man['checks']])
except Exception as e:
    ok = False; print('MANIFEST INVALID', str(e)[:500])
es = json.load(open('/root/.vp/EVIDENCE.schema.json'))
for c in man['checks']:
    f = c['evidence_file']
    try:
        jsonschema.validate(json.load(open(f)), es)
        print('evidence ok', f)
    except Exception as e:
        ok = False; print('EVIDENCE INVALID', f, str(e)[:300])
ids = {c['property_id'] for c in man['checks']} | {n['property_id'] for n in man.get('not_applicable', [])}
want = {json.loads(l)['id'] for l in open('/verif/properties.jsonl')}
if ids != want:
    ok = False; print('properties not covered:', sorted(want - ids), 'extra:', sorted(ids - want))
sys.exit(0 if ok else 1)
