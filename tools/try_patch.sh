#!/bin/sh
# tools/try_patch.sh <Cxx> <patch.diff> [tier]  — run a check against a scratch worktree of /repo with the patch applied
# (equivalent to applying it in /repo and undoing it, without disturbing anything else that reads /repo).
set -e
prop=$1; patch=$(readlink -f "$2"); tier=${3:-quick}
wt=$(mktemp -d /tmp/try-XXXXXX)
rmdir "$wt"
git -C /repo worktree add -q --detach "$wt" HEAD
trap 'git -C /repo worktree remove --force "$wt" >/dev/null 2>&1 || rm -rf "$wt"' EXIT
git -C "$wt" apply "$patch"
cd "$(dirname "$0")/.."
set +e
VERIF_REPO="$wt" ./check "$prop" --tier "$tier"
rc=$?
echo "exit=$rc"
exit $rc
